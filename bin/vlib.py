"""Driver library for the caches-rs runtime-monitoring checks.

Builds the harness variants against the *current working tree* of the repository, runs the
harness in short child processes (shards), aggregates what the monitors observed, applies the
known-findings list, writes replay files and the evidence file.

stdlib only (system python3).
"""
import concurrent.futures as cf
import hashlib
import json
import os
import re
import shutil
import signal
import subprocess
import sys
import time

ROOT = os.path.dirname(os.path.dirname(os.path.abspath(__file__)))
REPO = os.environ.get("CACHES_REPO", "/repo")
BUILD = os.path.join(ROOT, ".build")
HARNESS = os.path.join(ROOT, "harness")
# where evidence/ and replays/ are written (self-tests against scratch copies redirect this)
OUT = os.environ.get("VERIF_OUT", ROOT)
NCPU = int(os.environ.get("VERIF_JOBS", "16"))

EXIT_ASAN = 97
EXIT_LSAN = 98
EXIT_VALGRIND = 99

VARIANTS = {
    "dbg-std": dict(features="std-caches"),
    "rel-std": dict(features="std-caches", release=True),
    "dbg-nostd": dict(features="nostd-caches"),
    "rel-nostd": dict(features="nostd-caches", release=True),
    "dbg-talloc": dict(features="std-caches,talloc"),
    "asan": dict(
        features="std-caches",
        toolchain="nightly",
        rustflags="-Zsanitizer=address -Cforce-frame-pointers=yes",
        target="x86_64-unknown-linux-gnu",
    ),
    "miri": dict(features="std-caches", toolchain="nightly", miri=True),
    # valgrind runs the rel-std binary under memcheck
    "valgrind": dict(features="std-caches", release=True, alias="rel-std"),
}


def log(*a):
    print(*a, file=sys.stderr, flush=True)


def repo_tag():
    return hashlib.sha1(os.path.abspath(REPO).encode()).hexdigest()[:8]


def base_env():
    env = dict(os.environ)
    env["CARGO_NET_OFFLINE"] = "true"
    env.pop("RUSTFLAGS", None)
    env.pop("MIRIFLAGS", None)
    return env


import threading
_md_lock = threading.Lock()


def manifest_dir():
    with _md_lock:
        return _manifest_dir()


def _manifest_dir():
    """Render the harness manifest with the dependency path of the tree under test."""
    d = os.path.join(BUILD, "m-" + repo_tag())
    os.makedirs(d, exist_ok=True)
    src = open(os.path.join(HARNESS, "Cargo.toml")).read()
    src = src.replace('path = "/repo"', 'path = "%s"' % os.path.abspath(REPO))
    p = os.path.join(d, "Cargo.toml")
    if not os.path.exists(p) or open(p).read() != src:
        open(p, "w").write(src)
    lock = os.path.join(d, "Cargo.lock")
    if not os.path.exists(lock):
        shutil.copy(os.path.join(HARNESS, "Cargo.lock"), lock)
    link = os.path.join(d, "src")
    want = os.path.join(HARNESS, "src")
    if os.path.islink(link) and os.readlink(link) != want:
        os.unlink(link)
    if not os.path.lexists(link):
        try:
            os.symlink(want, link)
        except FileExistsError:
            pass
    return d


def target_dir(variant):
    v = VARIANTS[variant].get("alias", variant)
    return os.path.join(BUILD, "t-%s-%s" % (v, repo_tag()))


_built = {}


def build(variant):
    """cargo build of one variant from the current tree; returns the command prefix to run it."""
    if variant in _built:
        return _built[variant]
    spec = VARIANTS[variant]
    md = manifest_dir()
    env = base_env()
    env["CARGO_TARGET_DIR"] = target_dir(variant)
    cargo = ["cargo"]
    if spec.get("toolchain"):
        cargo.append("+" + spec["toolchain"])
    feat = ["--no-default-features", "--features", spec["features"]]
    t0 = time.time()
    if spec.get("miri"):
        env["MIRIFLAGS"] = "-Zmiri-tree-borrows -Zmiri-disable-isolation"
        cmd = cargo + ["miri", "run", "--offline", "--manifest-path", os.path.join(md, "Cargo.toml")] + feat + ["--", "noop"]
        r = subprocess.run(cmd, env=env, capture_output=True, text=True)
        if r.returncode != 0 and "usage: cvh" not in r.stderr:
            raise BuildError(variant, r.stdout + r.stderr)
        prefix = cargo + ["miri", "run", "--offline", "--manifest-path", os.path.join(md, "Cargo.toml")] + feat + ["--"]
        _built[variant] = (prefix, env)
        log("[build] %s ready in %.1fs" % (variant, time.time() - t0))
        return _built[variant]
    if spec.get("rustflags"):
        env["RUSTFLAGS"] = spec["rustflags"]
    cmd = cargo + ["build", "--offline", "--manifest-path", os.path.join(md, "Cargo.toml")] + feat
    if spec.get("release"):
        cmd.append("--release")
    if spec.get("target"):
        cmd += ["--target", spec["target"]]
    r = subprocess.run(cmd, env=env, capture_output=True, text=True)
    if r.returncode != 0:
        raise BuildError(variant, r.stdout + r.stderr)
    sub = "release" if spec.get("release") else "debug"
    if spec.get("target"):
        binp = os.path.join(env["CARGO_TARGET_DIR"], spec["target"], sub, "cvh")
    else:
        binp = os.path.join(env["CARGO_TARGET_DIR"], sub, "cvh")
    prefix = [binp]
    renv = base_env()
    if variant == "asan":
        renv["ASAN_OPTIONS"] = "exitcode=%d:detect_leaks=1:abort_on_error=0:halt_on_error=1:detect_stack_use_after_return=1" % EXIT_ASAN
        renv["LSAN_OPTIONS"] = "exitcode=%d" % EXIT_LSAN
    if variant == "valgrind":
        prefix = [
            "valgrind",
            "--quiet",
            "--error-exitcode=%d" % EXIT_VALGRIND,
            "--leak-check=full",
            "--errors-for-leak-kinds=definite,indirect",
            "--show-leak-kinds=definite,indirect",
            binp,
        ]
    _built[variant] = (prefix, renv)
    log("[build] %s ready in %.1fs" % (variant, time.time() - t0))
    return _built[variant]


class BuildError(Exception):
    def __init__(self, variant, out):
        super().__init__("build of variant %s failed" % variant)
        self.variant = variant
        self.out = out


def build_all(variants):
    # cargo serialises on the target-dir lock per variant; different variants build in parallel
    errs = []
    with cf.ThreadPoolExecutor(max_workers=4) as ex:
        futs = {ex.submit(build, v): v for v in variants}
        for f in cf.as_completed(futs):
            try:
                f.result()
            except BuildError as e:
                errs.append(e)
    if errs:
        raise errs[0]


# --------------------------------------------------------------------------------------
# running shards
# --------------------------------------------------------------------------------------

TOOL_PATTERNS = [
    (re.compile(r"ERROR: AddressSanitizer: ([a-z\-]+)"), "asan"),
    (re.compile(r"ERROR: LeakSanitizer: (detected memory leaks)"), "lsan"),
    (re.compile(r"error: Undefined Behavior: (.*)"), "miri-ub"),
    (re.compile(r"error: (memory leaked):"), "miri-leak"),
    (re.compile(r"error: (the evaluated program leaked memory)"), "miri-leak"),
    (re.compile(r"error: (unsupported operation: .*)"), "miri-unsupported"),
    (re.compile(r"Data race detected (.*)"), "miri-race"),
    (re.compile(r"==\d+== (Invalid (?:read|write|free).*|Conditional jump or move depends on uninitialised value.*|Use of uninitialised value.*|Mismatched free.*)"), "valgrind"),
    (re.compile(r"==\d+== ([\d,]+ bytes in [\d,]+ blocks are definitely lost.*)"), "valgrind-leak"),
]

FRAME = re.compile(r"(src/(?:lru|lfu)[\w/]*\.rs|src/lib\.rs|src/cache_api\.rs):(\d+)")


def tool_report(stderr):
    """first sanitizer / interpreter report in a child's stderr: (tool, kind, first in-repo frame)"""
    for pat, tool in TOOL_PATTERNS:
        m = pat.search(stderr)
        if m:
            tail = stderr[m.start():]
            fm = FRAME.search(tail)
            frame = fm.group(1) if fm else "?"
            line = fm.group(0) if fm else "?"
            kind = re.sub(r"alloc\d+", "alloc", m.group(1).strip())
            kind = re.sub(r"0x[0-9a-f]+", "0x..", kind)
            kind = re.sub(r"\d[\d,]*", "N", kind) if tool.endswith("leak") else kind
            return dict(tool=tool, kind=kind[:160], frame=frame, at=line, excerpt=tail[:1800])
    return None


class Shard:
    def __init__(self, variant, args, timeout, label, leaks_ok=False):
        self.leaks_ok = leaks_ok
        self.variant = variant
        self.args = args
        self.timeout = timeout
        self.label = label
        self.rc = None
        self.out = ""
        self.err = ""
        self.wall = 0.0
        self.timed_out = False
        self.summary = None
        self.violations = []
        self.lines = {}


def run_shard(sh):
    prefix, env = build(sh.variant)
    if sh.leaks_ok:
        # the property allows leaks (C18): switch the leak detectors off for this run
        env = dict(env)
        if "ASAN_OPTIONS" in env:
            env["ASAN_OPTIONS"] = env["ASAN_OPTIONS"].replace("detect_leaks=1", "detect_leaks=0")
        if "MIRIFLAGS" in env:
            env["MIRIFLAGS"] += " -Zmiri-ignore-leaks"
        prefix = [p for p in prefix if not p.startswith("--leak-check") and not p.startswith("--errors-for-leak") and not p.startswith("--show-leak")]
    cmd = prefix + sh.args + ["--variant", sh.variant]
    t0 = time.time()
    try:
        p = subprocess.Popen(cmd, env=env, stdout=subprocess.PIPE, stderr=subprocess.PIPE, text=True, start_new_session=True)
        try:
            sh.out, sh.err = p.communicate(timeout=sh.timeout)
        except subprocess.TimeoutExpired:
            sh.timed_out = True
            try:
                os.killpg(p.pid, signal.SIGKILL)
            except Exception:
                pass
            sh.out, sh.err = p.communicate()
        sh.rc = p.returncode
    except Exception as e:  # infrastructure failure
        sh.rc = -999
        sh.err = "driver: %r" % (e,)
    sh.wall = time.time() - t0
    for line in sh.out.splitlines():
        if line.startswith("@@"):
            tag, _, body = line.partition(" ")
            try:
                j = json.loads(body)
            except Exception:
                continue
            if tag == "@@VIOLATION":
                sh.violations.append(j)
            elif tag == "@@SUMMARY":
                sh.summary = j
            else:
                sh.lines.setdefault(tag, []).append(j)
    return sh


def run_shards(shards, jobs=NCPU):
    done = []
    with cf.ThreadPoolExecutor(max_workers=jobs) as ex:
        for sh in ex.map(run_shard, shards):
            done.append(sh)
    return done


# --------------------------------------------------------------------------------------
# known findings
# --------------------------------------------------------------------------------------

def load_known():
    p = os.path.join(ROOT, "known_findings.jsonl")
    out = []
    if os.path.exists(p):
        for line in open(p):
            line = line.strip()
            if line and not line.startswith("#"):
                out.append(json.loads(line))
    return out


def match_known(known, prop, sig):
    for k in known:
        if k.get("status") == "open" and k.get("property") == prop and sig.startswith(k.get("signature", "\0")):
            return k
    return None


# --------------------------------------------------------------------------------------
# evidence
# --------------------------------------------------------------------------------------

def write_evidence(prop, tier, seed, level, coverage, assumptions, wall, nviol):
    os.makedirs(os.path.join(OUT, "evidence"), exist_ok=True)
    ev = dict(
        property_id=prop,
        tier=tier,
        seed=seed,
        level=level,
        coverage=coverage,
        assumptions=assumptions,
        wall_s=round(wall, 2),
        violations=nviol,
    )
    p = os.path.join(OUT, "evidence", prop + ".json")
    tmp = p + ".tmp"
    with open(tmp, "w") as f:
        json.dump(ev, f, indent=1, sort_keys=True)
    os.replace(tmp, p)
    return p


def write_replay(prop, sig, payload):
    os.makedirs(os.path.join(OUT, "replays"), exist_ok=True)
    h = hashlib.sha1(sig.encode()).hexdigest()[:10]
    p = os.path.join(OUT, "replays", "%s-%s.json" % (prop, h))
    with open(p, "w") as f:
        json.dump(payload, f, indent=1, sort_keys=True)
    return p


def merge_counts(dst, src):
    for k, v in (src or {}).items():
        dst[k] = dst.get(k, 0) + v
