"""C19 — API soundness probes.

Workload = a corpus of hostile *client programs* (hold a reference across a mutation, let it
outlive the cache, hold two mutable references, move non-Send/non-Sync contents across
threads), generated per public reference-returning method and per iterator / cache type,
each with a positive control. Programs the compiler rejects (with a borrow-check / auto-trait
error) cannot exist, so there is nothing to run. Every program the compiler accepts is
executed under Miri (Tree Borrows + data-race detector) and natively under valgrind; a report
is the violation witness. Trusted: rustc's verdict on rejected probes; corpus completeness.
"""
import concurrent.futures as cf
import hashlib
import json
import os
import re
import shutil
import subprocess
import sys
import time

import vlib
from vlib import log

EXPECTED = {"E0499", "E0502", "E0505", "E0506", "E0597", "E0716", "E0277", "E0373", "E0521", "E0515", "E0713", "E0503", "E0382", "E0596"}

PRELUDE = """#![allow(unused, dropping_references, dropping_copy_types, forgetting_references)]
use caches::{AdaptiveCache, Cache, RawLRU, ResizableCache, SegmentedCache, TwoQueueCache, WTinyLFUCache};
use std::cell::Cell;
use std::marker::PhantomData;
use std::rc::Rc;
use std::sync::{Mutex, MutexGuard};
/// a value that is Sync but not Send
fn guard(n: u32) -> MutexGuard<'static, u32> { let m: &'static Mutex<u32> = Box::leak(Box::new(Mutex::new(n))); m.lock().unwrap() }
fn touch<T: std::fmt::Debug>(t: T) { println!("{:?}", t); }
fn s(x: &str) -> String { x.to_string() }
/// eviction callbacks with interior state: one that is neither Send nor Sync, one that is Send
/// but not Sync (its `clone` and `on_evict` touch the Cell through `&self`)
#[derive(Clone)]
struct RcCb(Rc<Cell<u32>>);
impl caches::OnEvictCallback for RcCb { fn on_evict<K, V>(&self, _: &K, _: &V) { self.0.set(self.0.get() + 1); } }
struct CellCb(Cell<u32>);
impl Clone for CellCb { fn clone(&self) -> Self { self.0.set(self.0.get() + 1); CellCb(Cell::new(self.0.get())) } }
impl caches::OnEvictCallback for CellCb { fn on_evict<K, V>(&self, _: &K, _: &V) { self.0.set(self.0.get() + 1); } }
/// a key that is neither Send nor Sync
#[derive(Debug, Clone, PartialEq, Eq, Hash)]
struct RK(Rc<u32>);
fn rk(n: u32) -> RK { RK(Rc::new(n)) }
/// a key that is Send but not Sync
#[derive(Debug, Clone, PartialEq, Eq, Hash)]
struct NK(u32, PhantomData<Cell<()>>);
fn nk(n: u32) -> NK { NK(n, PhantomData) }
"""

# how to build a populated cache of each type, parameterised by key/value constructors
SETUP = {
    "RawLRU": "let mut c = RawLRU::<{K}, {V}>::new(3).unwrap(); c.put({k0}, {v0}); c.put({k1}, {v1}); c.put({k2}, {v2});",
    "SegmentedCache": "let mut c = SegmentedCache::<{K}, {V}>::new(2, 2).unwrap(); c.put({k0}, {v0}); c.put({k1}, {v1}); c.get(&{k0}); c.put({k2}, {v2});",
    "TwoQueueCache": "let mut c = TwoQueueCache::<{K}, {V}>::new(4).unwrap(); c.put({k0}, {v0}); c.put({k1}, {v1}); c.get(&{k0}); c.put({k2}, {v2}); c.put({k3}, {v3}); c.put({k4}, {v4}); c.put({k5}, {v5});",
    "AdaptiveCache": "let mut c = AdaptiveCache::<{K}, {V}>::new(2).unwrap(); c.put({k0}, {v0}); c.put({k1}, {v1}); c.get(&{k0}); c.put({k2}, {v2}); c.put({k3}, {v3}); c.put({k1}, {v1}); c.put({k4}, {v4});",
    "WTinyLFUCache": "let mut c = WTinyLFUCache::<{K}, {V}>::with_sizes(1, 2, 2, 5).unwrap(); c.put({k0}, {v0}); c.put({k1}, {v1}); c.get(&{k1}); c.put({k2}, {v2});",
}


def setup(ty, K="String", V="String", k=lambda i: 's("k%d")' % i, v=lambda i: 's("v%d")' % i):
    d = dict(K=K, V=V)
    for i in range(6):
        d["k%d" % i] = k(i)
        d["v%d" % i] = v(i)
    return SETUP[ty].format(**d)


ITER_FAMS = ["iter", "iter_lru", "iter_mut", "iter_lru_mut", "keys", "keys_lru", "values", "values_lru", "values_mut", "values_lru_mut"]


def methods(ty):
    """(name, expression on `c`, hands out &mut?, is an iterator?)"""
    K0 = '&s("k0")'
    m = [
        ("get", "c.get(%s)" % K0, False, False),
        ("get_mut", "c.get_mut(%s)" % K0, True, False),
        ("peek", "c.peek(%s)" % K0, False, False),
        ("peek_mut", "c.peek_mut(%s)" % K0, True, False),
    ]
    if ty == "RawLRU":
        for n in ["get_lru", "get_mru", "peek_lru", "peek_mru"]:
            m.append((n, "c.%s()" % n, False, False))
        for n in ["get_lru_mut", "get_mru_mut", "peek_lru_mut", "peek_mru_mut"]:
            m.append((n, "c.%s()" % n, True, False))
        m.append(("peek_or_put", 'c.peek_or_put(s("k0"), s("x")).0', False, False))
        m.append(("peek_mut_or_put", 'c.peek_mut_or_put(s("k0"), s("x")).0', True, False))
        for f in ITER_FAMS:
            m.append((f, "c.%s()" % f, "mut" in f, True))
        m.append(("into_iter_ref", "(&c).into_iter()", False, True))
        m.append(("into_iter_mut", "(&mut c).into_iter()", True, True))
    if ty == "SegmentedCache":
        for seg in ["probationary", "protected"]:
            for n in ["peek_lru", "peek_mru"]:
                m.append(("%s_from_%s" % (n, seg), "c.%s_from_%s()" % (n, seg), False, False))
                m.append(("%s_mut_from_%s" % (n, seg), "c.%s_mut_from_%s()" % (n, seg), True, False))
    if ty == "TwoQueueCache":
        for lst in ["recent", "frequent", "ghost"]:
            for f in ITER_FAMS:
                m.append(("%s_%s" % (lst, f), "c.%s_%s()" % (lst, f), "mut" in f, True))
    if ty == "AdaptiveCache":
        for lst in ["recent", "frequent", "recent_evict", "frequent_evict"]:
            for f in ITER_FAMS:
                m.append(("%s_%s" % (lst, f), "c.%s_%s()" % (lst, f), "mut" in f, True))
    return m


TYPES = ["RawLRU", "SegmentedCache", "TwoQueueCache", "AdaptiveCache", "WTinyLFUCache"]
MUTATE = 'c.remove(&s("k0")); c.remove(&s("k1")); c.remove(&s("k2")); c.purge();'


def use(it):
    return "touch(r.next()); touch(r.next_back());" if it else "touch(&r);"


def gen_probes():
    """returns list of dict(name, kind, ty, method, abuse: bool, src)"""
    out = []

    def add(name, kind, ty, method, abuse, body, expect=None):
        out.append(dict(name=name, kind=kind, ty=ty, method=method, abuse=abuse, expect=expect, src=PRELUDE + "fn main() {\n" + body + "\n}\n"))

    for ty in TYPES:
        for (mn, expr, is_mut, is_it) in methods(ty):
            let = "let mut r" if is_it else "let r"
            # ---- hold across mutation (remove + purge: a surviving reference is a hard use-after-free)
            add("hold_%s_%s" % (ty, mn), "hold-across-mutation", ty, mn, True,
                "    %s\n    %s = %s;\n    %s\n    %s" % (setup(ty), let, expr, MUTATE, use(is_it)))
            add("holddrop_%s_%s" % (ty, mn), "hold-across-drop", ty, mn, True,
                "    %s\n    %s = %s;\n    drop(c);\n    %s" % (setup(ty), let, expr, use(is_it)))
            add("ctl_hold_%s_%s" % (ty, mn), "control", ty, mn, False,
                "    %s\n    {\n    %s = %s;\n    %s\n    }\n    %s" % (setup(ty), let, expr, use(is_it), MUTATE))
            # ---- outlive the cache
            add("outlive_%s_%s" % (ty, mn), "outlive-the-cache", ty, mn, True,
                "    let mut r;\n    {\n        %s\n        r = %s;\n    }\n    %s" % (setup(ty), expr, use(is_it)))
            # ---- two live mutable references / mutable + shared
            if is_mut:
                u = "touch(a.next()); touch(b.next());" if is_it else "touch(&a); touch(&b);"
                lt = "let mut" if is_it else "let"
                add("dblmut_%s_%s" % (ty, mn), "double-mutable", ty, mn, True,
                    "    %s\n    %s a = %s;\n    %s b = %s;\n    %s" % (setup(ty), lt, expr, lt, expr, u))
                u2 = "touch(a.next()); touch(&p);" if is_it else "touch(&a); touch(&p);"
                add("mutshared_%s_%s" % (ty, mn), "mutable-plus-shared", ty, mn, True,
                    "    %s\n    %s a = %s;\n    let p = c.peek(&s(\"k0\"));\n    %s" % (setup(ty), lt, expr, u2))
                add("ctl_dblmut_%s_%s" % (ty, mn), "control", ty, mn, False,
                    "    %s\n    {\n    %s a = %s;\n    %s\n    }\n    {\n    %s b = %s;\n    %s\n    }" % (
                        setup(ty), lt, expr, "touch(a.next());" if is_it else "touch(&a);", lt, expr, "touch(b.next());" if is_it else "touch(&b);"))

            # ---- a mutable iterator must not be cloneable (two live &mut to the same value)
            if is_mut and is_it:
                add("clonemut_%s_%s" % (ty, mn), "clone-mutable-iterator", ty, mn, True,
                    "    %s\n    let mut a = %s;\n    let mut b = a.clone();\n    let x = a.next();\n    let y = b.next();\n    touch(&x); touch(&y);" % (setup(ty), expr),
                    expect={"E0599", "E0277", "E0499"})

    # ---- Send / Sync
    guardv = lambda i: "guard(%d)" % i
    rcv = lambda i: "Rc::new(%d)" % i
    cellv = lambda i: "Cell::new(%d)" % i
    u32k = lambda i: "%du32" % i
    u32v = lambda i: "%du32" % i
    for ty in TYPES:
        # cache with Rc values moved to another thread
        add("send_rc_%s" % ty, "cross-thread", ty, "move-cache", True,
            "    %s\n    let keep = c.peek(&1).cloned();\n    let h = std::thread::spawn(move || { let x = c.peek(&1).cloned(); drop(x); drop(c); });\n    drop(keep);\n    h.join().unwrap();"
            % setup(ty, "u32", "Rc<u32>", u32k, rcv))
        # cache with Cell values shared by reference between threads
        add("sync_cell_%s" % ty, "cross-thread", ty, "share-cache", True,
            "    %s\n    let cr = &c;\n    std::thread::scope(|sc| {\n        sc.spawn(move || { if let Some(v) = cr.peek(&1) { v.set(v.get() + 1); } });\n        if let Some(v) = cr.peek(&1) { v.set(v.get() + 1); }\n    });"
            % setup(ty, "u32", "Cell<u32>", u32k, cellv))
        # cache with non-Sync keys shared by reference
        add("sync_key_%s" % ty, "cross-thread", ty, "share-cache-nonsync-key", True,
            "    %s\n    let cr = &c;\n    std::thread::scope(|sc| {\n        sc.spawn(move || { touch(cr.contains(&nk(1))); });\n        touch(cr.contains(&nk(1)));\n    });"
            % setup(ty, "NK", "u32", lambda i: "nk(%d)" % i, u32v))
        # cache with Sync-but-not-Send values moved to another thread
        add("send_guard_%s" % ty, "cross-thread", ty, "move-cache-sync-not-send", True,
            "    %s\n    let h = std::thread::spawn(move || { drop(c); });\n    h.join().unwrap();"
            % setup(ty, "u32", "MutexGuard<'static, u32>", u32k, guardv))
        # cache with non-Send keys moved to another thread (the other thread drops Rc clones)
        add("send_key_rc_%s" % ty, "cross-thread", ty, "move-cache-nonsend-key", True,
            "    let k1 = rk(1);\n    let keep = k1.clone();\n    %s\n    let h = std::thread::spawn(move || { drop(c); });\n    drop(keep);\n    h.join().unwrap();"
            % setup(ty, "RK", "u32", lambda i: ("k1.clone()" if i == 1 else "rk(%d)" % i), u32v))
        add("ctl_send_%s" % ty, "control", ty, "move-cache", False,
            "    %s\n    let h = std::thread::spawn(move || { touch(c.peek(&1)); drop(c); });\n    h.join().unwrap();" % setup(ty, "u32", "u32", u32k, u32v))
        add("ctl_sync_%s" % ty, "control", ty, "share-cache", False,
            "    %s\n    let cr = &c;\n    std::thread::scope(|sc| {\n        sc.spawn(move || { touch(cr.peek(&1)); });\n        touch(cr.peek(&1));\n    });" % setup(ty, "u32", "u32", u32k, u32v))
    # ---- the eviction callback is content too
    add("send_cb_rc_RawLRU", "cross-thread", "RawLRU", "move-cache-nonsend-callback", True,
        "    let shared = Rc::new(Cell::new(0u32));\n    let mut c = RawLRU::<u32, u32, RcCb>::with_on_evict_cb(1, RcCb(shared.clone())).unwrap();\n    c.put(1, 1);\n"
        "    let h = std::thread::spawn(move || { c.put(2, 2); c.put(3, 3); drop(c); });\n    shared.set(shared.get() + 1);\n    let s2 = shared.clone();\n    h.join().unwrap();\n    touch(s2.get());")
    add("sync_cb_rc_RawLRU", "cross-thread", "RawLRU", "share-cache-nonsend-callback", True,
        "    let shared = Rc::new(Cell::new(0u32));\n    let mut c = RawLRU::<u32, u32, RcCb>::with_on_evict_cb(2, RcCb(shared.clone())).unwrap();\n    c.put(1, 1);\n    let cr = &c;\n"
        "    std::thread::scope(|sc| {\n        sc.spawn(move || { let d = cr.clone(); drop(d); });\n        let d = cr.clone(); drop(d);\n    });")
    add("sync_cb_cell_RawLRU", "cross-thread", "RawLRU", "share-cache-nonsync-callback", True,
        "    let mut c = RawLRU::<u32, u32, CellCb>::with_on_evict_cb(2, CellCb(Cell::new(0))).unwrap();\n    c.put(1, 1);\n    let cr = &c;\n"
        "    std::thread::scope(|sc| {\n        sc.spawn(move || { let d = cr.clone(); touch(d.len()); });\n        let d = cr.clone(); touch(d.len());\n    });")
    add("ctl_send_cb_RawLRU", "control", "RawLRU", "move-cache-callback", False,
        "    let mut c = RawLRU::<u32, u32, CellCb>::with_on_evict_cb(1, CellCb(Cell::new(0))).unwrap();\n    c.put(1, 1);\n"
        "    let h = std::thread::spawn(move || { c.put(2, 2); let d = c.clone(); touch(d.len()); });\n    h.join().unwrap();")
    # iterators (all per-list iterator families are the same ten iterator types of RawLRU)
    for ty, prefix in [("RawLRU", ""), ("TwoQueueCache", "recent_"), ("TwoQueueCache", "ghost_"), ("AdaptiveCache", "frequent_"), ("AdaptiveCache", "recent_evict_")]:
        for f in ITER_FAMS:
            is_mut = "mut" in f
            it = "c.%s%s()" % (prefix, f)
            has_v = not f.startswith("keys")
            has_k = not f.startswith("values")
            tag = "%s_%s%s" % (ty, prefix, f)
            if has_v:
                # Rc values: the other thread clones/drops an Rc that this thread also holds
                body = "    %s\n    let keep = c.peek(&1).cloned();\n    let mut it = %s;\n    std::thread::scope(|sc| {\n        sc.spawn(move || { for x in it { let y = format!(\"{:?}\", x); drop(y); } });\n    });\n    drop(keep);"
                add("itersend_rc_%s" % tag, "cross-thread", ty, prefix + f, True, body % (setup(ty, "u32", "Rc<u32>", u32k, rcv), it))
            if has_v and not is_mut:
                # Cell values reached through a shared-reference iterator on another thread
                unpack = "let v = x.1;" if has_k else "let v = x;"
                body = ("    %s\n    let it = %s;\n    let it2 = %s;\n    std::thread::scope(|sc| {\n        sc.spawn(move || { for x in it { %s v.set(v.get() + 1); } });\n"
                        "        for x in it2 { %s v.set(v.get() + 1); }\n    });")
                add("itersend_cell_%s" % tag, "cross-thread", ty, prefix + f, True, body % (setup(ty, "u32", "Cell<u32>", u32k, cellv), it, it, unpack, unpack))
            if has_v and is_mut:
                # &mut V on another thread lets it move the value out: needs V: Send, Sync is not enough
                body = "    %s\n    let mut it = %s;\n    std::thread::scope(|sc| {\n        sc.spawn(move || { for x in it { let y = format!(\"{:?}\", x); drop(y); } });\n    });"
                add("itersend_guard_%s" % tag, "cross-thread", ty, prefix + f, True, body % (setup(ty, "u32", "MutexGuard<'static, u32>", u32k, guardv), it))
            if has_k:
                # non-Sync keys handed out by reference on another thread
                body = "    %s\n    let mut it = %s;\n    std::thread::scope(|sc| {\n        sc.spawn(move || { touch(it.next().is_some()); });\n    });"
                add("itersend_key_%s" % tag, "cross-thread", ty, prefix + f, True, body % (setup(ty, "NK", "u32", lambda i: "nk(%d)" % i, u32v), it))
            body = "    %s\n    let mut it = %s;\n    std::thread::scope(|sc| {\n        sc.spawn(move || { touch(it.next().is_some()); touch(it.next_back().is_some()); });\n    });"
            add("ctl_itersend_%s" % tag, "control", ty, prefix + f, False, body % (setup(ty, "u32", "u32", u32k, u32v), it))
    return out


def sh(cmd, env=None, timeout=None, cwd=None):
    return subprocess.run(cmd, env=env, capture_output=True, text=True, timeout=timeout, cwd=cwd)


def build_rlib():
    env = vlib.base_env()
    td = os.path.join(vlib.BUILD, "t-c19-" + vlib.repo_tag())
    env["CARGO_TARGET_DIR"] = td
    r = sh(["cargo", "build", "--offline", "--lib", "--manifest-path", os.path.join(vlib.REPO, "Cargo.toml")], env=env)
    if r.returncode != 0:
        raise vlib.BuildError("c19-rlib", r.stdout + r.stderr)
    return os.path.join(td, "debug", "libcaches.rlib"), os.path.join(td, "debug", "deps")


def compile_probe(p, rlib, deps, srcdir, outdir):
    src = os.path.join(srcdir, p["name"] + ".rs")
    with open(src, "w") as f:
        f.write(p["src"])
    out = os.path.join(outdir, p["name"])
    r = sh(["rustc", "--edition", "2021", "--crate-type", "bin", "-L", "dependency=" + deps, "--extern", "caches=" + rlib,
            "--error-format=json", "-C", "debuginfo=1", "-o", out, src], env=vlib.base_env())
    codes = []
    msgs = []
    for line in r.stderr.splitlines():
        try:
            j = json.loads(line)
        except Exception:
            continue
        if j.get("level") == "error":
            c = (j.get("code") or {}).get("code")
            if c:
                codes.append(c)
            msgs.append(j.get("message", "")[:160])
    p["compiled"] = r.returncode == 0
    p["codes"] = sorted(set(codes))
    p["msgs"] = msgs[:3]
    p["bin"] = out if p["compiled"] else None
    p["path"] = src
    return p


def miri_run(names, probes_by_name, tag):
    """run accepted programs under Miri: one cargo project, one bin per program"""
    proj = os.path.join(vlib.BUILD, "c19-miri-" + vlib.repo_tag() + "-" + tag)
    shutil.rmtree(os.path.join(proj, "src"), ignore_errors=True)
    os.makedirs(os.path.join(proj, "src", "bin"), exist_ok=True)
    with open(os.path.join(proj, "Cargo.toml"), "w") as f:
        f.write('[package]\nname = "c19probes"\nversion = "0.0.0"\nedition = "2021"\n[workspace]\n[dependencies]\ncaches = { path = "%s" }\n' % os.path.abspath(vlib.REPO))
    shutil.copy(os.path.join(vlib.HARNESS, "Cargo.lock"), os.path.join(proj, "Cargo.lock"))
    for n in names:
        with open(os.path.join(proj, "src", "bin", n + ".rs"), "w") as f:
            f.write(probes_by_name[n]["src"])
    env = vlib.base_env()
    env["CARGO_TARGET_DIR"] = os.path.join(vlib.BUILD, "t-c19miri-" + vlib.repo_tag())
    env["MIRIFLAGS"] = "-Zmiri-tree-borrows -Zmiri-disable-isolation"
    res = {}

    def one(n):
        try:
            r = sh(["cargo", "+nightly", "miri", "run", "--offline", "--manifest-path", os.path.join(proj, "Cargo.toml"), "--bin", n], env=env, timeout=600)
            return n, r.returncode, r.stderr
        except subprocess.TimeoutExpired:
            return n, -1, "timeout"

    if not names:
        return res
    # first one alone (builds the dependency), the rest in parallel
    first = one(names[0])
    res[first[0]] = first[1:]
    with cf.ThreadPoolExecutor(max_workers=vlib.NCPU) as ex:
        for n, rc, err in ex.map(one, names[1:]):
            res[n] = (rc, err)
    return res


def mega_controls(controls):
    """bundle the control programs of one type into one binary (fewer Miri invocations)"""
    by = {}
    for p in controls:
        by.setdefault(p["ty"], []).append(p)
    out = []
    for ty, ps in by.items():
        fns = []
        calls = []
        for i, p in enumerate(ps):
            body = p["src"][len(PRELUDE):]
            body = body.replace("fn main() {", "fn ctl_%d() {" % i, 1)
            fns.append("// %s\n%s" % (p["name"], body))
            calls.append("    ctl_%d();" % i)
        src = PRELUDE + "\n".join(fns) + "\nfn main() {\n" + "\n".join(calls) + "\n}\n"
        out.append(dict(name="controls_%s" % ty, ty=ty, src=src, members=[p["name"] for p in ps]))
    return out


def main(tier, seed):
    t0 = time.time()
    prop = "C19"
    known = vlib.load_known()
    try:
        rlib, deps = build_rlib()
    except vlib.BuildError as e:
        log(e.out[-3000:])
        print("INCONCLUSIVE property=C19 the library does not build")
        return 2
    probes = gen_probes()
    work = os.path.join(vlib.BUILD, "c19-" + vlib.repo_tag())
    srcdir = os.path.join(work, "src")
    outdir = os.path.join(work, "bin")
    shutil.rmtree(work, ignore_errors=True)
    os.makedirs(srcdir)
    os.makedirs(outdir)
    with cf.ThreadPoolExecutor(max_workers=vlib.NCPU) as ex:
        probes = list(ex.map(lambda p: compile_probe(p, rlib, deps, srcdir, outdir), probes))
    byname = {p["name"]: p for p in probes}
    abuse = [p for p in probes if p["abuse"]]
    controls = [p for p in probes if not p["abuse"]]
    def exp_ok(p):
        return bool(set(p["codes"]) & (p.get("expect") or EXPECTED))
    rejected_ok = [p for p in abuse if not p["compiled"] and exp_ok(p)]
    rejected_odd = [p for p in abuse if not p["compiled"] and not exp_ok(p)]
    accepted = [p for p in abuse if p["compiled"]]
    ctl_broken = [p for p in controls if not p["compiled"]]

    # ---- run what the compiler let through
    violations = []
    inconclusive = []
    miri_reports = {}
    acc_names = [p["name"] for p in accepted]
    if acc_names:
        miri_reports = miri_run(acc_names, byname, "abuse")
    for p in accepted:
        rc, err = miri_reports.get(p["name"], (0, ""))
        rep = vlib.tool_report(err) if rc != 0 else None
        vg = None
        if p["bin"]:
            try:
                r = sh(["valgrind", "--quiet", "--error-exitcode=%d" % vlib.EXIT_VALGRIND, p["bin"]], timeout=120)
                if r.returncode == vlib.EXIT_VALGRIND or r.returncode < 0:
                    vg = vlib.tool_report(r.stderr) or dict(tool="valgrind", kind="exit %d" % r.returncode, frame="?", at="?")
            except subprocess.TimeoutExpired:
                pass
        witness = rep or vg
        sig = "C19|%s|%s|%s|%s" % (p["kind"], p["ty"], p["method"], "runtime-witness" if witness else "accepted")
        detail = "the %s probe for %s::%s compiles" % (p["kind"], p["ty"], p["method"])
        if witness:
            detail += "; executing it: %s reports %s at %s" % (witness["tool"], witness["kind"], witness.get("at"))
        else:
            detail += "; no sanitizer report when executed (Miri rc=%s), but the property requires such programs to be rejected at compile time" % rc
        violations.append(dict(property=prop, rule=p["kind"], signature=sig, detail=detail, probe=p["path"], name=p["name"],
                               excerpt=(witness or {}).get("excerpt", "")[:1500]))

    # ---- controls: must compile; a rotating subset (all in thorough) must run clean under Miri
    megas = mega_controls([p for p in controls if p["compiled"]])
    if tier == "quick":
        megas_run = megas
    else:
        megas_run = megas
    mega_by = {m["name"]: m for m in megas_run}
    ctl_res = miri_run(list(mega_by.keys()), mega_by, "controls") if megas_run else {}
    ctl_bad = []
    for n, (rc, err) in ctl_res.items():
        if rc != 0:
            rep = vlib.tool_report(err)
            ctl_bad.append((n, rc, rep, err[-800:]))
    for p in ctl_broken:
        inconclusive.append("control %s does not compile (%s %s): its abuse probes prove nothing" % (p["name"], p["codes"], p["msgs"][:1]))
    for p in rejected_odd:
        inconclusive.append("abuse probe %s rejected for an unexpected reason %s %s" % (p["name"], p["codes"], p["msgs"][:1]))
    for n, rc, rep, tail in ctl_bad:
        # a legal program that misbehaves under Miri is a memory-safety finding of the library
        sig = "C19|control|%s|%s" % (n, (rep or {}).get("kind", "rc=%s" % rc))
        violations.append(dict(property=prop, rule="control-fails-under-miri", signature=sig,
                               detail="legal control programs %s fail under Miri: %s" % (n, (rep or {}).get("kind", tail[-300:])),
                               probe=os.path.join(vlib.BUILD, "c19-miri-%s-controls" % vlib.repo_tag(), "src", "bin", n + ".rs"), name=n,
                               excerpt=(rep or {}).get("excerpt", tail)[:1500]))

    # ---- verdict
    out_viol = []
    for v in violations:
        k = vlib.match_known(known, prop, v["signature"])
        if k:
            print("KNOWN-FINDING: property=%s %s" % (prop, k.get("what", v["signature"])))
            continue
        # keep the witness program next to the replay file (the build dir is scratch)
        keep = os.path.join(vlib.OUT, "replays", "C19-" + v["name"] + ".rs")
        os.makedirs(os.path.dirname(keep), exist_ok=True)
        try:
            shutil.copy(v["probe"], keep)
            v["probe"] = keep
        except Exception:
            pass
        path = vlib.write_replay(prop, v["signature"], v)
        out_viol.append((v, path))

    classes = sorted(set("%s|%s|%s" % (p["kind"], p["ty"], p["method"]) for p in probes))
    samples = []
    for p in (rejected_ok[:2] + controls[:1] + accepted[:2]):
        samples.append(dict(name=p["name"], kind=p["kind"], type=p["ty"], method=p["method"], compiled=p["compiled"], error_codes=p["codes"],
                            body=p["src"][len(PRELUDE):][:900]))
    codes_hist = {}
    for p in rejected_ok:
        for c in p["codes"]:
            codes_hist[c] = codes_hist.get(c, 0) + 1
    kinds_hist = {}
    for p in probes:
        kinds_hist[p["kind"]] = kinds_hist.get(p["kind"], 0) + 1
    coverage = dict(
        evaluations=len(probes),
        distinct_nontrivial=len(classes),
        rule=("one client program per (abuse kind, cache type, public reference-returning method or iterator family) plus positive controls; "
              "evaluations = programs handed to rustc; distinct = distinct (kind, type, method) triples; every accepted program is executed under "
              "Miri (tree borrows, data-race detector) and valgrind"),
        samples=samples,
        programs=len(probes),
        abuse_programs=len(abuse),
        rejected_with_expected_error=len(rejected_ok),
        rejected_for_unexpected_reason=len(rejected_odd),
        accepted_by_compiler=len(accepted),
        controls=len(controls),
        controls_compiled=len(controls) - len(ctl_broken),
        control_bundles_run_under_miri=len(ctl_res),
        control_bundles_clean=len(ctl_res) - len(ctl_bad),
        programs_executed_under_miri=len(acc_names) + sum(len(m["members"]) for m in megas_run),
        error_codes=codes_hist,
        programs_by_kind=kinds_hist,
        inconclusive=inconclusive[:40],
        exhaustive=False,
    )
    wall = time.time() - t0
    vlib.write_evidence(prop, tier, seed, "exploration", coverage,
                        ["rustc's verdict on rejected probes is trusted (a program that does not compile cannot be executed)",
                         "corpus completeness: one probe family per listed abuse per public method, not all programs",
                         "runtime verdicts on accepted programs come from Miri (Tree Borrows) and valgrind"], wall, len(out_viol))
    for v, path in out_viol:
        log("violation: %s\n    %s" % (v["signature"], v["detail"][:500]))
        print("VIOLATION property=%s replay=%s" % (prop, path))
    print("C19 %s: %d programs (%d abuse: %d rejected as expected, %d accepted, %d odd; %d controls, %d compiled, %d/%d bundles clean under Miri), %d violations, %.1fs"
          % (tier, len(probes), len(abuse), len(rejected_ok), len(accepted), len(rejected_odd), len(controls), len(controls) - len(ctl_broken), len(ctl_res) - len(ctl_bad), len(ctl_res), len(out_viol), wall))
    if out_viol:
        return 1
    if inconclusive:
        for x in inconclusive[:12]:
            log("  inconclusive: " + x)
        # broken controls / oddly rejected probes mean part of the corpus decided nothing
        if len(inconclusive) > len(probes) // 10:
            print("INCONCLUSIVE property=C19 %d probes decided nothing" % len(inconclusive))
            return 2
    return 0


def replay(path):
    r = json.load(open(path))
    src = r.get("probe")
    print("probe program:", src)
    rlib, deps = build_rlib()
    p = dict(name=r.get("name", "probe"), src=open(src).read(), abuse=True, kind=r.get("rule"), ty="?", method="?")
    work = os.path.join(vlib.BUILD, "c19-replay")
    os.makedirs(work, exist_ok=True)
    compile_probe(p, rlib, deps, work, work)
    print("compiles:", p["compiled"], p["codes"])
    if not p["compiled"]:
        return 0
    res = miri_run([p["name"]], {p["name"]: p}, "replay")
    rc, err = res[p["name"]]
    print(err[-1500:])
    print("VIOLATION property=C19 replay=%s" % path)
    return 1
