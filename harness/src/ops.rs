//! Operation language (whole public surface the properties quantify over), owned results,
//! and a compact textual form used for replay files and evidence samples.
use std::fmt;

#[derive(Clone, Copy, Debug, PartialEq, Eq, Hash, PartialOrd, Ord)]
pub enum Kind {
    Lru,
    Slru,
    TwoQ,
    Arc,
    Wtlfu,
}
pub const KINDS: [Kind; 5] = [Kind::Lru, Kind::Slru, Kind::TwoQ, Kind::Arc, Kind::Wtlfu];
impl Kind {
    pub fn name(self) -> &'static str {
        match self {
            Kind::Lru => "lru",
            Kind::Slru => "slru",
            Kind::TwoQ => "twoq",
            Kind::Arc => "arc",
            Kind::Wtlfu => "wtlfu",
        }
    }
    pub fn parse(s: &str) -> Option<Kind> {
        KINDS.iter().copied().find(|k| k.name() == s)
    }
    pub fn list_names(self) -> &'static [&'static str] {
        match self {
            Kind::Lru => &["lru"],
            Kind::Slru => &["probationary", "protected"],
            Kind::TwoQ => &["recent", "frequent", "ghost"],
            Kind::Arc => &["recent", "frequent", "recent_evict", "frequent_evict"],
            Kind::Wtlfu => &["window", "probationary", "protected"],
        }
    }
    /// how many of the lists hold resident (non-ghost) entries
    pub fn resident_lists(self) -> usize {
        match self {
            Kind::Lru => 1,
            Kind::Slru => 2,
            Kind::TwoQ => 2,
            Kind::Arc => 2,
            Kind::Wtlfu => 3,
        }
    }
}

#[derive(Clone, Copy, Debug, PartialEq, Eq, Hash)]
pub enum Fam {
    Iter,
    IterLru,
    IterMut,
    IterLruMut,
    Keys,
    KeysLru,
    Values,
    ValuesLru,
    ValuesMut,
    ValuesLruMut,
    IntoRef,
    IntoMut,
}
pub const FAMS: [Fam; 12] = [
    Fam::Iter,
    Fam::IterLru,
    Fam::IterMut,
    Fam::IterLruMut,
    Fam::Keys,
    Fam::KeysLru,
    Fam::Values,
    Fam::ValuesLru,
    Fam::ValuesMut,
    Fam::ValuesLruMut,
    Fam::IntoRef,
    Fam::IntoMut,
];
impl Fam {
    pub fn name(self) -> &'static str {
        match self {
            Fam::Iter => "iter",
            Fam::IterLru => "iter_lru",
            Fam::IterMut => "iter_mut",
            Fam::IterLruMut => "iter_lru_mut",
            Fam::Keys => "keys",
            Fam::KeysLru => "keys_lru",
            Fam::Values => "values",
            Fam::ValuesLru => "values_lru",
            Fam::ValuesMut => "values_mut",
            Fam::ValuesLruMut => "values_lru_mut",
            Fam::IntoRef => "into_iter_ref",
            Fam::IntoMut => "into_iter_mut",
        }
    }
    pub fn parse(s: &str) -> Option<Fam> {
        FAMS.iter().copied().find(|f| f.name() == s)
    }
    pub fn lru_first(self) -> bool {
        matches!(
            self,
            Fam::IterLru | Fam::IterLruMut | Fam::KeysLru | Fam::ValuesLru | Fam::ValuesLruMut
        )
    }
    pub fn mutable(self) -> bool {
        matches!(
            self,
            Fam::IterMut | Fam::IterLruMut | Fam::ValuesMut | Fam::ValuesLruMut | Fam::IntoMut
        )
    }
    pub fn has_keys(self) -> bool {
        !matches!(
            self,
            Fam::Values | Fam::ValuesLru | Fam::ValuesMut | Fam::ValuesLruMut
        )
    }
    pub fn has_vals(self) -> bool {
        !matches!(self, Fam::Keys | Fam::KeysLru)
    }
    pub fn clonable(self) -> bool {
        !self.mutable()
    }
}

/// Description of one iterator drive: `steps` calls, bit i of `pat` set = next_back.
#[derive(Clone, Copy, Debug, PartialEq, Eq, Hash)]
pub struct IterSpec {
    pub list: u8,
    pub fam: Fam,
    pub steps: u8,
    pub pat: u32,
    /// write a fresh value id through every yielded mutable reference
    pub write: bool,
    /// clone the iterator after this many steps and drain the clone (255 = never)
    pub clone_at: u8,
    /// how the remainder is consumed after the scripted steps: 0 count(), 1 last(), 2 nth(1),
    /// 3 nth_back(1), 4 rev().next(), 5 for loop, 6 rfold, 7 step_by(2), 8 skip(1).next()+count()
    pub fin: u8,
}

#[derive(Clone, Copy, Debug, PartialEq, Eq, Hash)]
pub enum Op {
    // Cache trait. `alt` selects the second borrowed form of the key for the lookup.
    Put(u32),
    Get(u32, bool),
    GetMut(u32, bool, bool),  // key, alt, write
    Peek(u32, bool),
    PeekMut(u32, bool, bool), // key, alt, write
    Contains(u32, bool),
    Remove(u32, bool),
    Purge,
    Len,
    Cap,
    IsEmpty,
    // RawLRU
    Resize(usize),
    GetLru,
    GetLruMut(bool),
    GetMru,
    GetMruMut(bool),
    PeekLru,
    PeekLruMut(bool),
    PeekMru,
    PeekMruMut(bool),
    PeekOrPut(u32),
    PeekMutOrPut(u32, bool),
    ContainsOrPut(u32),
    RemoveLru,
    // SegmentedCache: seg 0 = probationary, 1 = protected
    PutProtected(u32),
    RemoveLruFrom(u8),
    PeekLruFrom(u8),
    PeekLruMutFrom(u8, bool),
    PeekMruFrom(u8),
    PeekMruMutFrom(u8, bool),
    // per-list lengths / caps / partition (read-only accessors)
    SegLens,
    // iterators
    Iter(IterSpec),
    Debug,
}

impl Op {
    pub fn name(&self) -> &'static str {
        match self {
            Op::Put(_) => "put",
            Op::Get(..) => "get",
            Op::GetMut(..) => "get_mut",
            Op::Peek(..) => "peek",
            Op::PeekMut(..) => "peek_mut",
            Op::Contains(..) => "contains",
            Op::Remove(..) => "remove",
            Op::Purge => "purge",
            Op::Len => "len",
            Op::Cap => "cap",
            Op::IsEmpty => "is_empty",
            Op::Resize(_) => "resize",
            Op::GetLru => "get_lru",
            Op::GetLruMut(_) => "get_lru_mut",
            Op::GetMru => "get_mru",
            Op::GetMruMut(_) => "get_mru_mut",
            Op::PeekLru => "peek_lru",
            Op::PeekLruMut(_) => "peek_lru_mut",
            Op::PeekMru => "peek_mru",
            Op::PeekMruMut(_) => "peek_mru_mut",
            Op::PeekOrPut(_) => "peek_or_put",
            Op::PeekMutOrPut(..) => "peek_mut_or_put",
            Op::ContainsOrPut(_) => "contains_or_put",
            Op::RemoveLru => "remove_lru",
            Op::PutProtected(_) => "put_protected",
            Op::RemoveLruFrom(_) => "remove_lru_from",
            Op::PeekLruFrom(_) => "peek_lru_from",
            Op::PeekLruMutFrom(..) => "peek_lru_mut_from",
            Op::PeekMruFrom(_) => "peek_mru_from",
            Op::PeekMruMutFrom(..) => "peek_mru_mut_from",
            Op::SegLens => "seg_lens",
            Op::Iter(_) => "iter",
            Op::Debug => "debug",
        }
    }

    /// the key the operation names, if any
    pub fn key(&self) -> Option<u32> {
        match self {
            Op::Put(k)
            | Op::Get(k, _)
            | Op::GetMut(k, _, _)
            | Op::Peek(k, _)
            | Op::PeekMut(k, _, _)
            | Op::Contains(k, _)
            | Op::Remove(k, _)
            | Op::PeekOrPut(k)
            | Op::PeekMutOrPut(k, _)
            | Op::ContainsOrPut(k)
            | Op::PutProtected(k) => Some(*k),
            _ => None,
        }
    }

    /// Operations the property C13 lists as read-only (a mutable accessor counts only when
    /// nothing is written through it).
    pub fn read_only(&self) -> bool {
        match self {
            Op::Peek(..)
            | Op::Contains(..)
            | Op::Len
            | Op::Cap
            | Op::IsEmpty
            | Op::GetMru
            | Op::PeekLru
            | Op::PeekMru
            | Op::PeekLruFrom(_)
            | Op::PeekMruFrom(_)
            | Op::SegLens
            | Op::Debug => true,
            Op::PeekMut(_, _, w)
            | Op::GetMruMut(w)
            | Op::PeekLruMut(w)
            | Op::PeekMruMut(w)
            | Op::PeekLruMutFrom(_, w)
            | Op::PeekMruMutFrom(_, w) => !*w,
            Op::Iter(s) => !(s.write && s.fam.mutable()),
            _ => false,
        }
    }

    /// does the op consume a fresh value id (a store or a write through `&mut`)?
    pub fn may_store(&self) -> bool {
        match self {
            Op::Put(_)
            | Op::PeekOrPut(_)
            | Op::ContainsOrPut(_)
            | Op::PutProtected(_) => true,
            Op::PeekMutOrPut(..) => true,
            Op::GetMut(_, _, w)
            | Op::PeekMut(_, _, w)
            | Op::GetLruMut(w)
            | Op::GetMruMut(w)
            | Op::PeekLruMut(w)
            | Op::PeekMruMut(w)
            | Op::PeekLruMutFrom(_, w)
            | Op::PeekMruMutFrom(_, w) => *w,
            _ => false,
        }
    }
}

fn b(x: bool) -> &'static str {
    if x {
        "1"
    } else {
        "0"
    }
}

impl fmt::Display for Op {
    fn fmt(&self, f: &mut fmt::Formatter<'_>) -> fmt::Result {
        match self {
            Op::Put(k) => write!(f, "put:{}", k),
            Op::Get(k, a) => write!(f, "get:{}:{}", k, b(*a)),
            Op::GetMut(k, a, w) => write!(f, "get_mut:{}:{}:{}", k, b(*a), b(*w)),
            Op::Peek(k, a) => write!(f, "peek:{}:{}", k, b(*a)),
            Op::PeekMut(k, a, w) => write!(f, "peek_mut:{}:{}:{}", k, b(*a), b(*w)),
            Op::Contains(k, a) => write!(f, "contains:{}:{}", k, b(*a)),
            Op::Remove(k, a) => write!(f, "remove:{}:{}", k, b(*a)),
            Op::Purge => write!(f, "purge"),
            Op::Len => write!(f, "len"),
            Op::Cap => write!(f, "cap"),
            Op::IsEmpty => write!(f, "is_empty"),
            Op::Resize(n) => write!(f, "resize:{}", n),
            Op::GetLru => write!(f, "get_lru"),
            Op::GetLruMut(w) => write!(f, "get_lru_mut:{}", b(*w)),
            Op::GetMru => write!(f, "get_mru"),
            Op::GetMruMut(w) => write!(f, "get_mru_mut:{}", b(*w)),
            Op::PeekLru => write!(f, "peek_lru"),
            Op::PeekLruMut(w) => write!(f, "peek_lru_mut:{}", b(*w)),
            Op::PeekMru => write!(f, "peek_mru"),
            Op::PeekMruMut(w) => write!(f, "peek_mru_mut:{}", b(*w)),
            Op::PeekOrPut(k) => write!(f, "peek_or_put:{}", k),
            Op::PeekMutOrPut(k, w) => write!(f, "peek_mut_or_put:{}:{}", k, b(*w)),
            Op::ContainsOrPut(k) => write!(f, "contains_or_put:{}", k),
            Op::RemoveLru => write!(f, "remove_lru"),
            Op::PutProtected(k) => write!(f, "put_protected:{}", k),
            Op::RemoveLruFrom(s) => write!(f, "remove_lru_from:{}", s),
            Op::PeekLruFrom(s) => write!(f, "peek_lru_from:{}", s),
            Op::PeekLruMutFrom(s, w) => write!(f, "peek_lru_mut_from:{}:{}", s, b(*w)),
            Op::PeekMruFrom(s) => write!(f, "peek_mru_from:{}", s),
            Op::PeekMruMutFrom(s, w) => write!(f, "peek_mru_mut_from:{}:{}", s, b(*w)),
            Op::SegLens => write!(f, "seg_lens"),
            Op::Iter(s) => write!(
                f,
                "iter:{}:{}:{}:{}:{}:{}:{}",
                s.list,
                s.fam.name(),
                s.steps,
                s.pat,
                b(s.write),
                s.clone_at,
                s.fin
            ),
            Op::Debug => write!(f, "debug"),
        }
    }
}

impl Op {
    pub fn parse(s: &str) -> Option<Op> {
        let p: Vec<&str> = s.trim().split(':').collect();
        let u = |i: usize| -> Option<u32> { p.get(i)?.parse().ok() };
        let bb = |i: usize| -> Option<bool> { Some(*p.get(i)? == "1") };
        Some(match p[0] {
            "put" => Op::Put(u(1)?),
            "get" => Op::Get(u(1)?, bb(2)?),
            "get_mut" => Op::GetMut(u(1)?, bb(2)?, bb(3)?),
            "peek" => Op::Peek(u(1)?, bb(2)?),
            "peek_mut" => Op::PeekMut(u(1)?, bb(2)?, bb(3)?),
            "contains" => Op::Contains(u(1)?, bb(2)?),
            "remove" => Op::Remove(u(1)?, bb(2)?),
            "purge" => Op::Purge,
            "len" => Op::Len,
            "cap" => Op::Cap,
            "is_empty" => Op::IsEmpty,
            "resize" => Op::Resize(p.get(1)?.parse().ok()?),
            "get_lru" => Op::GetLru,
            "get_lru_mut" => Op::GetLruMut(bb(1)?),
            "get_mru" => Op::GetMru,
            "get_mru_mut" => Op::GetMruMut(bb(1)?),
            "peek_lru" => Op::PeekLru,
            "peek_lru_mut" => Op::PeekLruMut(bb(1)?),
            "peek_mru" => Op::PeekMru,
            "peek_mru_mut" => Op::PeekMruMut(bb(1)?),
            "peek_or_put" => Op::PeekOrPut(u(1)?),
            "peek_mut_or_put" => Op::PeekMutOrPut(u(1)?, bb(2)?),
            "contains_or_put" => Op::ContainsOrPut(u(1)?),
            "remove_lru" => Op::RemoveLru,
            "put_protected" => Op::PutProtected(u(1)?),
            "remove_lru_from" => Op::RemoveLruFrom(u(1)? as u8),
            "peek_lru_from" => Op::PeekLruFrom(u(1)? as u8),
            "peek_lru_mut_from" => Op::PeekLruMutFrom(u(1)? as u8, bb(2)?),
            "peek_mru_from" => Op::PeekMruFrom(u(1)? as u8),
            "peek_mru_mut_from" => Op::PeekMruMutFrom(u(1)? as u8, bb(2)?),
            "seg_lens" => Op::SegLens,
            "iter" => Op::Iter(IterSpec {
                list: u(1)? as u8,
                fam: Fam::parse(p.get(2)?)?,
                steps: u(3)? as u8,
                pat: u(4)?,
                write: bb(5)?,
                clone_at: u(6)? as u8,
                fin: u(7).unwrap_or(0) as u8,
            }),
            "debug" => Op::Debug,
            _ => return None,
        })
    }
}

pub fn ops_to_string(ops: &[Op]) -> String {
    ops.iter().map(|o| o.to_string()).collect::<Vec<_>>().join(";")
}
pub fn ops_parse(s: &str) -> Option<Vec<Op>> {
    if s.trim().is_empty() {
        return Some(vec![]);
    }
    s.split(';').map(Op::parse).collect()
}

/// Owned rendering of `PutResult<K, TVal>`: keys as numbers, values as value ids.
#[derive(Clone, Debug, PartialEq, Eq, Hash)]
pub enum PR {
    Put,
    Update(u64),
    Evicted(u32, u64),
    EvictedAndUpdate(u32, u64, u64),
}
impl PR {
    pub fn variant(&self) -> &'static str {
        match self {
            PR::Put => "Put",
            PR::Update(_) => "Update",
            PR::Evicted(..) => "Evicted",
            PR::EvictedAndUpdate(..) => "EvictedAndUpdate",
        }
    }
}

#[derive(Clone, Debug, PartialEq, Eq, Hash)]
pub struct IterStep {
    pub back: bool,
    /// (key, value id before any write, value id written)
    pub item: Option<(Option<u32>, Option<u64>, Option<u64>)>,
    pub hint_lo: usize,
    pub hint_hi: Option<usize>,
    pub len: usize,
}

#[derive(Clone, Debug, PartialEq, Eq, Hash, Default)]
pub struct IterTrace {
    pub initial_len: usize,
    pub initial_hint: (usize, Option<usize>),
    pub steps: Vec<IterStep>,
    /// `count()` of what is left after the scripted steps
    pub final_count: usize,
    /// items drained (by `next`) from a clone taken after `clone_at` steps
    pub clone_rest: Option<Vec<(Option<u32>, Option<u64>)>>,
    /// two extra `next`/`next_back` calls after exhaustion returned None?
    pub fused_ok: bool,
    pub drained: bool,
    /// what the finisher (`fin`) returned: an item, or the number of items folded
    pub fin_item: Option<(Option<u32>, Option<u64>)>,
    pub fin_n: usize,
}

#[derive(Clone, Debug, PartialEq, Eq, Hash)]
pub enum Res {
    Unit,
    Put(PR),
    /// lookups returning a value
    Val(Option<u64>),
    /// lookups returning (key, value)
    KV(Option<(u32, u64)>),
    Bool(bool),
    Num(u64),
    /// peek_or_put / peek_mut_or_put / contains_or_put: (found value or flag, put result)
    OrPut(Option<u64>, bool, Option<PR>),
    Lens(Vec<u64>),
    Iter(IterTrace),
    Text(String),
    Panic(String),
    Unsupported,
}

impl Res {
    /// coarse outcome class used for coverage accounting
    pub fn class(&self) -> &'static str {
        match self {
            Res::Unit => "unit",
            Res::Put(p) => p.variant(),
            Res::Val(Some(_)) => "hit",
            Res::Val(None) => "miss",
            Res::KV(Some(_)) => "some",
            Res::KV(None) => "none",
            Res::Bool(true) => "true",
            Res::Bool(false) => "false",
            Res::Num(_) => "num",
            Res::OrPut(_, true, _) => "found",
            Res::OrPut(_, false, Some(p)) => p.variant(),
            Res::OrPut(_, false, None) => "notfound-noput",
            Res::Lens(_) => "lens",
            Res::Iter(_) => "iter",
            Res::Text(_) => "text",
            Res::Panic(_) => "PANIC",
            Res::Unsupported => "unsupported",
        }
    }
}

impl fmt::Display for Res {
    fn fmt(&self, f: &mut fmt::Formatter<'_>) -> fmt::Result {
        match self {
            Res::Put(PR::Put) => write!(f, "Put"),
            Res::Put(PR::Update(o)) => write!(f, "Update(v{})", o),
            Res::Put(PR::Evicted(k, v)) => write!(f, "Evicted({},v{})", k, v),
            Res::Put(PR::EvictedAndUpdate(k, v, o)) => {
                write!(f, "EvictedAndUpdate(({},v{}),v{})", k, v, o)
            }
            Res::Val(Some(v)) => write!(f, "Some(v{})", v),
            Res::Val(None) => write!(f, "None"),
            Res::KV(Some((k, v))) => write!(f, "Some(({},v{}))", k, v),
            Res::KV(None) => write!(f, "None"),
            Res::Iter(t) => {
                let items: Vec<String> = t
                    .steps
                    .iter()
                    .map(|s| match &s.item {
                        None => "-".to_string(),
                        Some((k, v, _)) => format!(
                            "{}{}{}",
                            if s.back { "<" } else { ">" },
                            k.map(|k| k.to_string()).unwrap_or_default(),
                            v.map(|v| format!("/v{}", v)).unwrap_or_default()
                        ),
                    })
                    .collect();
                write!(f, "Iter[{}]", items.join(","))
            }
            other => write!(f, "{:?}", other),
        }
    }
}
