//! Workload sources: configuration grids, hostile random profiles, directed scripts for the
//! named case splits, and the alphabets used by the bounded-exhaustive explorer.
use crate::ops::*;
use crate::subject::Cfg;
use crate::track::{HKind, HKINDS};
use crate::util::Rng;

/// which ops a generated history may contain
#[derive(Clone, Copy, Debug, PartialEq, Eq)]
pub enum Mix {
    /// whole public surface of the type
    Full,
    /// mutating ops and lookups only (no iterators / Debug)
    Policy,
    /// read-only calls sprinkled densely between mutations
    ReadHeavy,
    /// iterator batteries between mutations
    IterHeavy,
}

pub fn universe_for(cfg: &Cfg, rng: &mut Rng) -> Vec<u32> {
    let t = cfg.total().max(1);
    let ghosts = match cfg.kind {
        Kind::TwoQ => cfg.ghost_cap(),
        Kind::Arc => cfg.a,
        _ => 0,
    };
    let n = match rng.below(5) {
        0 => t + 1,
        1 => t + 2,
        2 => t + 3,
        3 => t + ghosts + 1,
        _ => t + ghosts + 2,
    };
    (0..n as u32).collect()
}

pub fn small_cfgs(kind: Kind, thorough: bool) -> Vec<Cfg> {
    let mut v = vec![];
    match kind {
        Kind::Lru => {
            for c in [1usize, 2, 3, 4, 5, 8] {
                v.push(Cfg::lru(c));
            }
            if thorough {
                v.push(Cfg::lru(64));
                v.push(Cfg::lru(128));
            }
        }
        Kind::Slru => {
            for a in 1..=4usize {
                for b in 1..=4usize {
                    if !thorough && a + b > 6 {
                        continue;
                    }
                    v.push(Cfg::slru(a, b));
                }
            }
            if thorough {
                v.push(Cfg::slru(16, 48));
            }
        }
        Kind::TwoQ => {
            let sizes: &[usize] = if thorough { &[1, 2, 3, 4, 5, 8, 64] } else { &[1, 2, 3, 4, 5, 8] };
            for &s in sizes {
                for rr in [0.0, 1e-9, 0.25, 0.5, 0.75, 1.0 - 1e-9, 1.0] {
                    for gr in [0.34, 0.5, 1.0] {
                        let c = Cfg::twoq(s, rr, gr);
                        if c.ghost_cap() >= 1 {
                            v.push(c);
                        }
                    }
                }
            }
        }
        Kind::Arc => {
            for s in [1usize, 2, 3, 4, 5, 8] {
                v.push(Cfg::arc(s));
            }
            if thorough {
                v.push(Cfg::arc(64));
            }
        }
        Kind::Wtlfu => {
            let samples: &[usize] = if thorough { &[1, 2, 3, 5, 16, 1000] } else { &[1, 3, 5, 16] };
            for w in 1..=3usize {
                for t in 1..=3usize {
                    for p in 1..=3usize {
                        if !thorough && (w + t + p) > 6 {
                            continue;
                        }
                        for &s in samples {
                            for kh in [HKind::Ident, HKind::RandA, HKind::Two] {
                                v.push(Cfg::wtlfu(w, t, p, s, kh));
                            }
                        }
                    }
                }
            }
        }
    }
    v
}

/// pick a configuration for a random history
/// a medium-sized configuration (tens of entries: index growth / rehash, long lists)
pub fn medium_cfg(kind: Kind, rng: &mut Rng) -> Cfg {
    match kind {
        Kind::Lru => Cfg::lru(rng.range(12, 48) as usize),
        Kind::Slru => Cfg::slru(rng.range(6, 24) as usize, rng.range(6, 24) as usize),
        Kind::TwoQ => Cfg::twoq(rng.range(12, 40) as usize, *rng.pick(&[0.1, 0.25, 0.5, 0.9]), *rng.pick(&[0.25, 0.5, 1.0])),
        Kind::Arc => Cfg::arc(rng.range(12, 32) as usize),
        Kind::Wtlfu => Cfg::wtlfu(rng.range(2, 6) as usize, rng.range(4, 12) as usize, rng.range(4, 12) as usize, *rng.pick(&[7usize, 32, 200]), *rng.pick(&[HKind::Ident, HKind::RandA, HKind::Fnv])),
    }
}

/// hundreds of entries: thresholds in capacities, lengths and index growth
pub fn large_cfg(kind: Kind, rng: &mut Rng) -> Cfg {
    match kind {
        Kind::Lru => Cfg::lru(rng.range(64, 300) as usize),
        Kind::Slru => Cfg::slru(rng.range(32, 130) as usize, rng.range(32, 130) as usize),
        Kind::TwoQ => Cfg::twoq(rng.range(64, 260) as usize, *rng.pick(&[0.05, 0.25, 0.6]), *rng.pick(&[0.1, 0.5, 1.0])),
        Kind::Arc => Cfg::arc(rng.range(64, 200) as usize),
        Kind::Wtlfu => Cfg::wtlfu(rng.range(2, 20) as usize, rng.range(40, 120) as usize, rng.range(10, 60) as usize, *rng.pick(&[50usize, 500, 5000]), *rng.pick(&[HKind::Ident, HKind::RandA, HKind::Fnv])),
    }
}

pub fn random_cfg(kind: Kind, rng: &mut Rng, thorough: bool) -> Cfg {
    let cfgs = small_cfgs(kind, thorough);
    let mut c = if cfg!(miri) {
        // the interpreter stays with the small configurations (every op sweeps the key universe)
        rng.pick(&cfgs).clone()
    } else if rng.chance(1, 40) {
        large_cfg(kind, rng)
    } else if rng.chance(1, 12) {
        medium_cfg(kind, rng)
    } else {
        rng.pick(&cfgs).clone()
    };
    c.hk = *rng.pick(&HKINDS);
    // mostly the hasher-taking constructors / builders, sometimes the plain constructors
    c.ctor = match rng.below(8) {
        0 => 1,
        1 => 2,
        _ => 0,
    };
    c
}

fn rnd_iter(kind: Kind, rng: &mut Rng, list_len_hint: usize) -> Op {
    let nlists = kind.list_names().len() as u64;
    let fams: &[Fam] = match kind {
        Kind::Lru => &FAMS,
        _ => &FAMS[..10],
    };
    let steps = (list_len_hint as u64 + 2).min(12) as u8;
    let steps = rng.range(0, steps as u64) as u8;
    Op::Iter(IterSpec {
        list: rng.below(nlists) as u8,
        fam: *rng.pick(fams),
        steps,
        pat: rng.next() as u32 & ((1u32 << steps.min(31)) - 1).max(0),
        write: rng.chance(1, 3),
        clone_at: if rng.chance(1, 3) { rng.range(0, steps as u64) as u8 } else { 255 },
        fin: if rng.chance(1, 3) { 0 } else { rng.range(1, 8) as u8 },
    })
}

pub fn has_iters(kind: Kind) -> bool {
    matches!(kind, Kind::Lru | Kind::TwoQ | Kind::Arc)
}

fn key_by_profile(profile: u8, i: usize, uni: &[u32], rng: &mut Rng, hot: &mut u32) -> u32 {
    let n = uni.len() as u64;
    match profile {
        // tiny: uniform over the universe
        0 => uni[rng.below(n) as usize],
        // loop: cyclic scan (worst case for LRU; ghost hits on every step for 2Q/ARC)
        1 => uni[i % uni.len()],
        // zipf-ish: a few hot keys
        2 => {
            let r = rng.below(100);
            if r < 50 {
                uni[0]
            } else if r < 75 {
                uni[1 % uni.len()]
            } else {
                uni[rng.below(n) as usize]
            }
        }
        // churn around a moving hot key
        3 => {
            if rng.chance(1, 6) {
                *hot = uni[rng.below(n) as usize];
            }
            if rng.chance(2, 3) {
                *hot
            } else {
                uni[rng.below(n) as usize]
            }
        }
        // scan with revisits
        _ => {
            if rng.chance(1, 4) {
                uni[(i / 2) % uni.len()]
            } else {
                uni[(i * 7 + 3) % uni.len()]
            }
        }
    }
}

/// one random mutating-or-lookup op for the kind
fn rnd_op(kind: Kind, cfg: &Cfg, k: u32, rng: &mut Rng, mix: Mix) -> Op {
    let alt = rng.chance(1, 2);
    let w = rng.chance(1, 2);
    let r = rng.below(100);
    // common core, weighted towards mutations
    let core = |r: u64| -> Op {
        match r {
            0..=34 => Op::Put(k),
            35..=49 => Op::Get(k, alt),
            50..=57 => Op::GetMut(k, alt, w),
            58..=62 => Op::Peek(k, alt),
            63..=66 => Op::PeekMut(k, alt, w),
            67..=69 => Op::Contains(k, alt),
            70..=79 => Op::Remove(k, alt),
            80 => Op::Purge,
            81 => Op::Len,
            82 => Op::Cap,
            83 => Op::IsEmpty,
            _ => Op::Put(k),
        }
    };
    if r < 84 {
        return core(r);
    }
    let r2 = rng.below(100);
    match kind {
        Kind::Lru => match r2 {
            0..=11 => Op::Resize(match rng.below(8) {
                0 => 0,
                1 => 1,
                2 => cfg.a,
                3 => cfg.a + 1,
                4 => cfg.a.saturating_sub(1),
                5 => 2,
                6 => 3,
                _ if rng.below(6) == 0 => [usize::MAX, 1usize << 63, (1usize << 63) - 1, 1usize << 32][rng.below(4) as usize],
                _ => rng.below(7) as usize,
            }),
            12..=19 => Op::GetLru,
            20..=25 => Op::GetLruMut(w),
            26..=29 => Op::GetMru,
            30..=33 => Op::GetMruMut(w),
            34..=39 => Op::PeekLru,
            40..=43 => Op::PeekLruMut(w),
            44..=47 => Op::PeekMru,
            48..=51 => Op::PeekMruMut(w),
            52..=61 => Op::PeekOrPut(k),
            62..=69 => Op::PeekMutOrPut(k, w),
            70..=79 => Op::ContainsOrPut(k),
            80..=91 => Op::RemoveLru,
            92..=95 => Op::SegLens,
            _ => {
                if mix == Mix::Policy {
                    Op::RemoveLru
                } else {
                    Op::Debug
                }
            }
        },
        Kind::Slru => {
            let s = rng.below(2) as u8;
            match r2 {
                0..=29 => Op::PutProtected(k),
                30..=44 => Op::RemoveLruFrom(s),
                45..=54 => Op::PeekLruFrom(s),
                55..=64 => Op::PeekMruFrom(s),
                65..=74 => Op::PeekLruMutFrom(s, w),
                75..=84 => Op::PeekMruMutFrom(s, w),
                _ => Op::SegLens,
            }
        }
        Kind::TwoQ | Kind::Arc | Kind::Wtlfu => match r2 {
            0..=39 => Op::SegLens,
            40..=49 if kind == Kind::TwoQ && mix != Mix::Policy => Op::Debug,
            _ => core(rng.below(80)),
        },
    }
}

fn rnd_readonly(kind: Kind, k: u32, rng: &mut Rng) -> Op {
    let alt = rng.chance(1, 2);
    let s = rng.below(2) as u8;
    loop {
        let op = match rng.below(16) {
            0 => Op::Peek(k, alt),
            1 => Op::PeekMut(k, alt, false),
            2 => Op::Contains(k, alt),
            3 => Op::Len,
            4 => Op::Cap,
            5 => Op::IsEmpty,
            6 => Op::SegLens,
            7 if kind == Kind::Lru => Op::PeekLru,
            8 if kind == Kind::Lru => Op::PeekMru,
            9 if kind == Kind::Lru => Op::GetMru,
            10 if kind == Kind::Lru => *rng.pick(&[Op::PeekLruMut(false), Op::PeekMruMut(false), Op::GetMruMut(false)]),
            11 if kind == Kind::Lru || kind == Kind::TwoQ => Op::Debug,
            12 if kind == Kind::Slru => *rng.pick(&[Op::PeekLruFrom(s), Op::PeekMruFrom(s)]),
            13 if kind == Kind::Slru => *rng.pick(&[Op::PeekLruMutFrom(s, false), Op::PeekMruMutFrom(s, false)]),
            14 | 15 if has_iters(kind) => {
                let mut it = rnd_iter(kind, rng, 4);
                if let Op::Iter(ref mut sp) = it {
                    sp.write = false;
                }
                it
            }
            _ => continue,
        };
        return op;
    }
}

/// a random hostile history of `n` ops
pub fn random_history(cfg: &Cfg, uni: &[u32], n: usize, rng: &mut Rng, mix: Mix) -> Vec<Op> {
    let kind = cfg.kind;
    let profile = rng.below(5) as u8;
    let mut hot = uni[0];
    let mut ops = Vec::with_capacity(n);
    for i in 0..n {
        let k = key_by_profile(profile, i, uni, rng, &mut hot);
        match mix {
            Mix::ReadHeavy if rng.chance(1, 2) => ops.push(rnd_readonly(kind, k, rng)),
            Mix::IterHeavy if has_iters(kind) && rng.chance(2, 5) => ops.push(rnd_iter(kind, rng, cfg.total().min(6))),
            Mix::Full if has_iters(kind) && rng.chance(1, 12) => ops.push(rnd_iter(kind, rng, cfg.total().min(6))),
            Mix::Full if rng.chance(1, 10) => ops.push(rnd_readonly(kind, k, rng)),
            _ => ops.push(rnd_op(kind, cfg, k, rng, mix)),
        }
    }
    ops
}

/// alphabet for the bounded-exhaustive explorer: every state-changing op for every key of
/// the universe (read-only ops do not change the abstract state; they are exercised by the
/// random profiles and by C13)
pub fn alphabet(cfg: &Cfg, uni: &[u32], with_readonly: bool) -> Vec<Op> {
    let kind = cfg.kind;
    let mut a = vec![];
    for &k in uni {
        a.push(Op::Put(k));
        a.push(Op::Get(k, false));
        a.push(Op::Remove(k, false));
        if with_readonly {
            a.push(Op::Peek(k, true));
            a.push(Op::GetMut(k, true, true));
        }
        match kind {
            Kind::Slru => a.push(Op::PutProtected(k)),
            Kind::Lru => {
                a.push(Op::PeekOrPut(k));
                if with_readonly {
                    a.push(Op::ContainsOrPut(k));
                    a.push(Op::PeekMutOrPut(k, true));
                }
            }
            _ => {}
        }
    }
    a.push(Op::Purge);
    match kind {
        Kind::Lru => {
            a.push(Op::RemoveLru);
            a.push(Op::GetLru);
            for n in 0..=(cfg.a + 1) {
                a.push(Op::Resize(n));
            }
            if with_readonly {
                a.push(Op::GetLruMut(true));
                a.push(Op::PeekLru);
                a.push(Op::GetMru);
            }
        }
        Kind::Slru => {
            a.push(Op::RemoveLruFrom(0));
            a.push(Op::RemoveLruFrom(1));
        }
        _ => {}
    }
    a
}

/// A history over thousands of entries: fill past 1024 / 4096 entries, touch, peek at the LRU
/// end, shrink by thousands in one call (RawLRU), purge, refill.
pub fn huge_history(kind: Kind, variant: usize, rng: &mut Rng) -> (Cfg, Vec<Op>, Vec<u32>) {
    let big = if variant == 0 { 1500usize } else { 4500 };
    let cfg = match kind {
        Kind::Lru => Cfg::lru(big),
        Kind::Slru => Cfg::slru(big / 2, big / 2 + 300),
        Kind::TwoQ => Cfg::twoq(big, 0.3, 1.0),
        Kind::Arc => Cfg::arc(big),
        Kind::Wtlfu => Cfg::wtlfu(if variant == 0 { 40 } else { 700 }, big / 2 + 200, big / 2, 20000, HKind::Ident),
    };
    let total = cfg.total();
    let n = (total + total / 3) as u32;
    let mut ops: Vec<Op> = vec![];
    for k in 0..n {
        ops.push(Op::Put(k));
        if k % 3 == 0 && k > 10 {
            ops.push(Op::Get(k - 7, k % 2 == 0));
        }
    }
    // read-only calls right at the least-recent end of a full, large list: the keys sitting at
    // the ends of every list are taken from the reference model's state at this point
    ops.push(Op::Len);
    let mut ends: Vec<u32> = vec![];
    {
        let mut m = crate::model::Model::new(&cfg);
        for (i, op) in ops.iter().enumerate() {
            let outs = m.step(op, (i as u64 + 1) * 64, &crate::model::NoEst);
            if let Some(o) = outs.into_iter().next() {
                m.st = o.st;
            }
        }
        for l in &m.st.lists {
            if let Some(e) = l.last() {
                ends.push(e.0);
            }
            if l.len() >= 2 {
                ends.push(l[l.len() - 2].0);
            }
            if let Some(e) = l.first() {
                ends.push(e.0);
            }
        }
    }
    for k in ends.into_iter().chain([0u32, 1, 2, n - total as u32, n - total as u32 + 1, n - 1]) {
        ops.push(Op::PeekMut(k, false, false));
        ops.push(Op::Peek(k, true));
        ops.push(Op::Contains(k, false));
    }
    match kind {
        Kind::Lru => {
            ops.extend([Op::PeekLru, Op::PeekLruMut(false), Op::GetMru, Op::Put(n + 1), Op::Put(n + 2)]);
            ops.push(Op::Iter(IterSpec { list: 0, fam: Fam::IterLru, steps: 6, pat: 0b010101, write: false, clone_at: 3, fin: 1 }));
            // shrink by thousands in one call, then by a handful, then to zero and back
            // (1100 of 1500, resp. 4200 of 4500 entries leave in one call)
            let first_cut = if variant == 0 { 1100 } else { 4200 };
            ops.extend([Op::Resize(total - first_cut), Op::Put(n + 3), Op::Resize(10), Op::Put(n + 4), Op::PeekLru, Op::Resize(0), Op::Put(n + 5), Op::Resize(total), Op::Len]);
            for k in 0..(total as u32 + 50) {
                ops.push(Op::Put(k));
            }
            ops.extend([Op::GetLru, Op::RemoveLru, Op::Purge, Op::Len, Op::Put(1), Op::Put(2)]);
        }
        Kind::Slru => {
            ops.extend([Op::PeekLruFrom(0), Op::PeekLruMutFrom(1, false), Op::PutProtected(n + 1), Op::PutProtected(3), Op::RemoveLruFrom(1), Op::RemoveLruFrom(0)]);
            for k in 0..(n / 2) {
                ops.push(Op::Get(k * 2, false));
            }
            ops.extend([Op::Purge, Op::Put(1)]);
        }
        _ => {
            for k in 0..(n / 2) {
                ops.push(Op::Put(k * 2));
            }
            for k in 0..200u32 {
                ops.push(Op::Remove(n - 1 - k, false));
            }
            for k in 0..300u32 {
                ops.push(Op::Put(n + k));
            }
            ops.extend([Op::Purge, Op::Put(1), Op::Get(1, false), Op::Put(2)]);
        }
    }
    let _ = rng;
    let uni: Vec<u32> = (0..n + 310).collect();
    (cfg, ops, uni)
}

/// Directed scripts: short histories that reach the named branches of each policy's case
/// split deterministically (and the configurations the unit tests never build).
pub fn directed(kind: Kind) -> Vec<(Cfg, Vec<Op>, &'static str)> {
    use Op::*;
    let g = |k| Get(k, false);
    let mut v: Vec<(Cfg, Vec<Op>, &'static str)> = vec![];
    match kind {
        Kind::Lru => {
            v.push((Cfg::lru(2), vec![Resize(0), Put(1), Put(1), Len, PeekLru, Resize(2), Put(1), Put(2), Put(3)], "resize-to-0-then-put"));
            v.push((Cfg::lru(1), vec![Put(1), Put(2), Put(1), GetLru, PeekOrPut(3), ContainsOrPut(3), RemoveLru, RemoveLru], "capacity-1"));
            v.push((Cfg::lru(3), vec![Put(1), Put(2), Put(3), g(1), GetLru, GetLruMut(true), PeekLruMut(true), Put(4), Resize(1), Resize(5), Put(5), Put(6), Purge, Put(7)], "order-ops"));
            v.push((Cfg::lru(2), vec![Put(1), Put(2), GetMut(1, false, true), Put(3), Put(4), Remove(3, true), Resize(0), Resize(0), Put(9)], "update-then-evict"));
            v.push((Cfg::lru(3), vec![Put(1), Put(2), Put(3), Resize(usize::MAX), Len, Put(4), Resize(1usize << 63), Len, Put(5), Resize((1usize << 63) - 1), Len, Resize(1usize << 32), PeekLru, Resize(2), Len, Put(6)], "practically-unbounded-capacities"));
        }
        Kind::Slru => {
            v.push((Cfg::slru(2, 1), vec![Put(1), g(1), Put(2), Put(2), Put(3), g(3), Put(4), Put(5)], "put-on-probationary-with-protected-full"));
            v.push((Cfg::slru(2, 2), vec![Put(1), PutProtected(1), Remove(1, false), Contains(1, false), Len], "put_protected-on-probationary-key"));
            v.push((Cfg::slru(1, 1), vec![Put(1), g(1), Put(2), g(2), PutProtected(3), PutProtected(2), Put(4), PutProtected(4), RemoveLruFrom(1), RemoveLruFrom(0)], "capacity-1-1"));
            v.push((Cfg::slru(2, 2), vec![Put(1), Put(2), g(1), g(2), Put(3), g(3), Put(4), GetMut(4, true, true), PutProtected(5), PutProtected(1)], "promotion-overflow-demotes"));
        }
        Kind::TwoQ => {
            v.push((Cfg::twoq(2, 0.25, 0.5), vec![Put(1), Put(2), g(1), g(2), Put(3), Put(1), Put(4)], "quota-0-recent-empty"));
            v.push((Cfg::twoq(2, 1.0, 0.5), vec![Put(1), Put(2), Put(3), Put(1), Put(2), Put(3)], "quota-size-frequent-empty"));
            v.push((Cfg::twoq(4, 0.25, 0.5), vec![Put(1), Put(2), Put(3), Put(4), Put(5), Put(6), Put(1), Put(2), g(3), Put(7), Put(5), Remove(6, false), Remove(1, false)], "ghost-revival-and-overflow"));
            v.push((Cfg::twoq(3, 0.5, 0.34), vec![Put(1), Put(2), Put(3), Put(4), Put(1), Put(5), Put(4), Put(2)], "ghost-evicts-the-revived-key"));
            v.push((Cfg::twoq(2, 0.0, 1.0), vec![Put(1), g(1), Put(2), g(2), Put(3), Put(4), Put(1), Put(2), Put(3)], "ratio-0"));
        }
        Kind::Arc => {
            v.push((Cfg::arc(1), vec![Put(1), Put(2), Put(1), Len, Put(2), Put(3), Put(1), Put(2)], "size-1"));
            v.push((Cfg::arc(2), vec![Put(0), Put(3), Put(2), Put(1), Put(0), Put(3), Put(2)], "ghost-hit-on-ghost-lru-while-full"));
            v.push((Cfg::arc(2), vec![Put(1), g(1), Put(2), g(2), Put(3), Put(4), Put(1), Put(2), Put(3), Put(4), Put(5), Put(1)], "b2-hits-lower-p"));
            v.push((Cfg::arc(3), vec![Put(1), Put(2), Put(3), Put(4), Put(5), Put(6), Put(1), Put(2), Put(3), g(4), g(5), Put(7), Put(8), Put(9), Put(4), Put(6), Remove(7, false), Purge, Put(1)], "p-saturation"));
        }
        Kind::Wtlfu => {
            let c = Cfg::wtlfu(1, 1, 1, 5, HKind::Ident);
            v.push((c.clone(), vec![Put(1), Put(2), Put(3), g(3), g(3), Put(4), Put(5), g(1), g(1), g(1), Put(6), Put(7)], "admission-reject-admit"));
            v.push((Cfg::wtlfu(1, 2, 2, 4, HKind::Ident), vec![Put(1), Put(2), Put(3), g(1), g(2), g(1), g(2), g(9), Put(4), Put(4), Put(5), Put(5), Put(6), Purge, g(1), Put(1)], "window-put-moves-to-protected"));
            v.push((Cfg::wtlfu(2, 1, 1, 1, HKind::Ident), vec![Put(1), Put(2), Put(1), Put(2), Put(3), Put(4), g(3), Put(3), Put(5), Put(6)], "samples-1-protected-full"));
        }
    }
    v
}

/// W-TinyLFU admission decisions between two keys whose estimates sit at or next to the top of
/// the 4-bit counter range (15 in the sketch + 1 from the doorkeeper): `na` recorded accesses
/// of the later victim against `nb` of the later candidate, sample size far above the script
/// length so no reset interferes.
pub fn saturation_grid() -> Vec<(Cfg, Vec<Op>)> {
    use Op::*;
    let mut v = vec![];
    for na in 12..=19u32 {
        for nb in 12..=19u32 {
            for (pt, pb) in [(1usize, 1usize), (2, 1), (1, 2), (2, 2)] {
                let mut ops = vec![];
                for _ in 0..na {
                    ops.push(Get(8, false));
                }
                for _ in 0..nb {
                    ops.push(Get(9, false));
                }
                // fill the protected segment (keys 1..=pt), each promoted by a hit while probationary
                ops.push(Put(1));
                for i in 1..=pt as u32 {
                    ops.push(Put(i + 1));
                    ops.push(Get(i, false));
                }
                // 8 becomes the probationary LRU of a full main cache, 9 the window's evictee
                for k in [8, 5, 9, 6, 7] {
                    ops.push(Put(k));
                }
                ops.push(Contains(8, false));
                ops.push(Contains(9, false));
                v.push((Cfg::wtlfu(1, pt, pb, 4096, HKind::Ident), ops));
            }
        }
    }
    v
}

/// ARC at sizes of a thousand and more, in the two corners random traffic does not reach:
/// (a) a full cache whose recent list holds a single entry while p is still 0, then new keys
/// (victim choice between a one-entry recent list and a long frequent list); (b) a recent-ghost
/// hit while the frequent ghost list is hundreds of times longer than the recent ghost list
/// (one adaptation step of several hundred). The keys are read off the reference model.
pub fn arc_large_scripts(which: usize) -> (Cfg, Vec<Op>, Vec<u32>) {
    use crate::model::{Model, NoEst};
    let run = |cfg: &Cfg, ops: &[Op]| -> crate::model::MState {
        let mut m = Model::new(cfg);
        for (i, op) in ops.iter().enumerate() {
            if let Some(o) = m.step(op, (i as u64 + 1) * 64, &NoEst).into_iter().next() {
                m.st = o.st;
            }
        }
        m.st
    };
    if which == 0 {
        let size = 1024u32;
        let cfg = Cfg::arc(size as usize);
        let mut ops: Vec<Op> = (0..size).map(Op::Put).collect();
        ops.extend((0..size - 1).map(|k| Op::Get(k, false)));
        ops.extend([Op::Put(size), Op::Put(size + 1), Op::Len, Op::Put(size + 2), Op::Put(0), Op::Put(size - 1)]);
        let uni = (0..size + 3).collect();
        return (cfg, ops, uni);
    }
    let size = 1000u32;
    let cfg = Cfg::arc(size as usize);
    let mut ops: Vec<Op> = (0..2 * size).map(Op::Put).collect();
    let st = run(&cfg, &ops);
    let residents: Vec<u32> = st.lists[0].iter().chain(st.lists[1].iter()).map(|e| e.0).collect();
    ops.extend(residents.iter().map(|k| Op::Get(*k, false)));
    // 300 hits on the recent ghost list, most recently evicted first
    let st = run(&cfg, &ops);
    let ghosts: Vec<u32> = st.lists[2].iter().take(300).map(|e| e.0).collect();
    ops.extend(ghosts.iter().map(|k| Op::Put(*k)));
    // leave a single recent ghost, then hit it
    let st = run(&cfg, &ops);
    let rest: Vec<u32> = st.lists[2].iter().map(|e| e.0).collect();
    if rest.len() >= 2 {
        ops.extend(rest[1..].iter().map(|k| Op::Remove(*k, false)));
        ops.push(Op::Len);
        ops.push(Op::Put(rest[0]));
    }
    ops.extend([Op::Put(2 * size + 1), Op::Put(2 * size + 2), Op::Len]);
    let uni = (0..2 * size + 3).collect();
    (cfg, ops, uni)
}
