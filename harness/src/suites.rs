//! Per-property workloads built on the engine: directed scripts, bounded-exhaustive
//! exploration of the smallest configurations, and random hostile histories over the grid.
use crate::engine::*;
use crate::gen::*;
use crate::ops::*;
use crate::subject::*;
use crate::track::*;
use crate::util::*;
use std::collections::{BTreeMap, HashSet, VecDeque};
use std::time::Instant;

#[derive(Clone, Debug)]
pub struct Ctx {
    pub prop: String,
    pub seed: u64,
    pub shard: u64,
    pub nshards: u64,
    pub thorough: bool,
    /// random ops budget for this shard
    pub ops: u64,
    /// max abstract states per explored configuration
    pub bfs_states: usize,
    /// length of random histories
    pub hist_len: usize,
    /// wall-clock guard (seconds); running out is reported, never a verdict
    pub max_secs: u64,
    /// values/keys own heap blocks (sanitizer variants)
    pub heapy: bool,
    /// deal the directed scripts round-robin to the shards instead of running all on each
    pub spread_directed: bool,
    /// C18 under slow tools: inject at every stride-th call only (offset rotates)
    pub inject_stride: u64,
    pub variant: String,
}

#[derive(Clone, Debug)]
pub struct Found {
    pub v: Violation,
    pub cfg: Cfg,
    pub kt: KeyType,
    pub ops: Vec<Op>,
    pub universe: Vec<u32>,
    pub seeds: [u64; 4],
    pub extra: BTreeMap<String, String>,
}

#[derive(Default)]
pub struct ShardOut {
    pub found: Vec<Found>,
    pub cov: Cov,
    pub notes: Counts,
    pub bfs: Vec<J>,
    pub timed_out: bool,
}

impl ShardOut {
    pub fn add(&mut self, f: Found) {
        if !self.found.iter().any(|x| x.v.sig == f.v.sig) {
            self.found.push(f);
        }
    }
}

pub fn props_for(prop: &str) -> Props {
    Props::parse(prop)
}

fn kinds_for(prop: &str) -> Vec<Kind> {
    match prop {
        "C06" | "C15" => vec![Kind::Lru],
        "C07" => vec![Kind::Slru],
        "C08" => vec![Kind::TwoQ],
        "C09" => vec![Kind::Arc],
        "C10" => vec![Kind::Wtlfu],
        "C14" => vec![Kind::Lru, Kind::TwoQ, Kind::Arc],
        _ => KINDS.to_vec(),
    }
}

fn mix_for(prop: &str) -> Mix {
    match prop {
        "C13" => Mix::ReadHeavy,
        "C14" => Mix::IterHeavy,
        _ => Mix::Full,
    }
}

fn keytype_for(prop: &str, rng: &mut Rng) -> KeyType {
    match prop {
        "C04" => KeyType::Tracked,
        "C02" | "C03" => {
            if rng.chance(1, 2) {
                KeyType::Str
            } else {
                KeyType::Tracked
            }
        }
        _ => {
            if rng.chance(1, 6) {
                KeyType::Str
            } else {
                KeyType::Tracked
            }
        }
    }
}

fn record(out: &mut ShardOut, cfg: &Cfg, kt: KeyType, ops: &[Op], opts: &RunOpts, vs: Vec<Violation>) {
    for v in vs {
        if out.found.iter().any(|x| x.v.sig == v.sig) {
            continue;
        }
        let small = shrink(cfg, kt, ops, opts, &v.prop, &v.rule);
        // re-run the shrunk history to get the matching detail text
        let mut cov = Cov::default();
        let mut o2 = opts.clone();
        o2.check_from = 0;
        let r = run_history(cfg, kt, &small, &o2, &mut cov);
        let v2 = r
            .violations
            .into_iter()
            .find(|x| x.prop == v.prop && x.rule == v.rule)
            .unwrap_or(v.clone());
        // keep the original signature class (dedup key), but the shrunk witness
        let mut vv = v2;
        let orig_sig = v.sig.clone();
        if vv.sig != orig_sig {
            // the shrunk run may land in a different pre-state class; report the class it shows
        }
        let mut extra = BTreeMap::new();
        if let Some(c) = opts.clone_swap_at {
            extra.insert("clone-swap".to_string(), c.to_string());
        }
        out.add(Found {
            v: vv.clone(),
            cfg: cfg.clone(),
            kt,
            ops: small,
            universe: opts.universe.clone(),
            seeds: opts.seeds,
            extra,
        });
        let _ = &mut vv;
    }
}

/// bounded-exhaustive exploration: drive every op of the alphabet from every distinct
/// abstract state reached (each transition is a real execution judged by the monitors)
pub fn explore(
    cfg: &Cfg,
    kt: KeyType,
    uni: &[u32],
    alpha: &[Op],
    max_states: usize,
    props: Props,
    out: &mut ShardOut,
    deadline: Instant,
) -> (usize, u64, bool) {
    let mut opts = RunOpts::new(props, uni.to_vec());
    opts.lookup_audit = props.c03;
    let mut seen: HashSet<u64> = HashSet::new();
    let mut queue: VecDeque<Vec<Op>> = VecDeque::new();
    let mut cov = Cov::default();
    let r0 = run_history(cfg, kt, &[], &opts, &mut cov);
    if r0.build_err.is_some() {
        return (0, 0, false);
    }
    if let Some(h) = r0.final_hash {
        seen.insert(h);
    }
    queue.push_back(vec![]);
    let mut transitions = 0u64;
    let mut capped = false;
    while let Some(path) = queue.pop_front() {
        if Instant::now() > deadline {
            out.timed_out = true;
            capped = true;
            break;
        }
        for op in alpha {
            let mut h = path.clone();
            h.push(*op);
            opts.check_from = path.len();
            let r = run_history(cfg, kt, &h, &opts, &mut cov);
            transitions += 1;
            if !r.violations.is_empty() {
                let mut o2 = opts.clone();
                o2.check_from = 0;
                record(out, cfg, kt, &h, &o2, r.violations);
                continue;
            }
            if r.panicked {
                continue;
            }
            if let Some(fh) = r.final_hash {
                if !seen.contains(&fh) {
                    if seen.len() >= max_states {
                        capped = true;
                    } else {
                        seen.insert(fh);
                        queue.push_back(h);
                    }
                }
            }
        }
    }
    cov.transitions = transitions;
    // histories replayed for exploration are prefixes; count monitored ops only
    out.cov.merge(&cov);
    (seen.len(), transitions, !capped)
}

fn bfs_cfgs(kind: Kind, thorough: bool) -> Vec<(Cfg, usize)> {
    // (configuration, universe size)
    let mut v = vec![];
    match kind {
        Kind::Lru => {
            for c in 1..=3usize {
                v.push((Cfg::lru(c), 4));
            }
            if thorough {
                v.push((Cfg::lru(4), 5));
            }
        }
        Kind::Slru => {
            for a in 1..=2usize {
                for b in 1..=2usize {
                    v.push((Cfg::slru(a, b), 4));
                }
            }
            if thorough {
                v.push((Cfg::slru(3, 2), 6));
                v.push((Cfg::slru(2, 3), 6));
            }
        }
        Kind::TwoQ => {
            for (s, rr, gr) in [
                (1usize, 0.25, 1.0),
                (2, 0.25, 0.5),
                (2, 0.5, 0.5),
                (2, 1.0, 1.0),
                (3, 0.0, 0.34),
                (3, 0.34, 0.67),
                (3, 1.0, 0.34),
            ] {
                let c = Cfg::twoq(s, rr, gr);
                let u = s + c.ghost_cap() + 1;
                v.push((c, u.max(3)));
            }
            if thorough {
                v.push((Cfg::twoq(4, 0.25, 0.5), 7));
                v.push((Cfg::twoq(4, 0.5, 1.0), 7));
            }
        }
        Kind::Arc => {
            v.push((Cfg::arc(1), 3));
            v.push((Cfg::arc(2), 4));
            if thorough {
                v.push((Cfg::arc(2), 5));
                v.push((Cfg::arc(3), 5));
            }
        }
        Kind::Wtlfu => {
            v.push((Cfg::wtlfu(1, 1, 1, 3, HKind::Ident), 4));
            v.push((Cfg::wtlfu(1, 1, 1, 1, HKind::Ident), 4));
            if thorough {
                v.push((Cfg::wtlfu(2, 1, 1, 4, HKind::Ident), 5));
                v.push((Cfg::wtlfu(1, 1, 2, 2, HKind::Two), 5));
            }
        }
    }
    v
}

/// C12, structural part: two PutResults compare equal exactly when they are the same variant
/// with equal payloads (decided here by independent destructuring); Clone/Copy preserve that.
pub fn putresult_structural(out: &mut ShardOut) {
    use caches::PutResult as P;
    fn mkv(variant: u8, a: u32, b: u32, c: u32) -> P<u32, u32> {
        match variant {
            0 => P::Put,
            1 => P::Update(a),
            2 => P::Evicted { key: a, value: b },
            _ => P::EvictedAndUpdate { evicted: (a, b), update: c },
        }
    }
    fn parts(p: &P<u32, u32>) -> (u8, Vec<u32>) {
        match p {
            P::Put => (0, vec![]),
            P::Update(a) => (1, vec![*a]),
            P::Evicted { key, value } => (2, vec![*key, *value]),
            P::EvictedAndUpdate { evicted, update } => (3, vec![evicted.0, evicted.1, *update]),
        }
    }
    let vals = [0u32, 1, 2];
    let mut all = vec![];
    for v in 0..4u8 {
        for a in vals {
            for b in vals {
                for c in vals {
                    all.push(mkv(v, a, b, c));
                }
            }
        }
    }
    let mut bad: Option<String> = None;
    for x in &all {
        for y in &all {
            let exp = parts(x) == parts(y);
            let got = guarded(|| (x == y, y == x, !(x != y)));
            out.cov.monitored += 1;
            out.cov.triples.insert(format!("putresult-eq|{}|{}|{}", parts(x).0, parts(y).0, exp));
            match got {
                Ok((a, b, c)) if a == exp && b == exp && c == exp => {}
                other => {
                    bad = Some(format!("{:?} == {:?} evaluates to {:?}, structural equality says {}", x, y, other, exp));
                }
            }
        }
        let cl = x.clone();
        let cp = *x;
        if parts(&cl) != parts(x) || parts(&cp) != parts(x) || cl != *x || cp != *x {
            bad = Some(format!("clone/copy of {:?} is {:?}/{:?}", x, cl, cp));
        }
    }
    // payloads whose own equality is not reflexive: equality of results is a function of the
    // variant and the payloads' equality only (never of object identity)
    {
        let nan = f64::NAN;
        let rs: Vec<P<u32, f64>> = vec![P::Update(nan), P::Evicted { key: 1, value: nan }, P::EvictedAndUpdate { evicted: (1, 1.0), update: nan }, P::EvictedAndUpdate { evicted: (1, nan), update: 1.0 }];
        for r in &rs {
            #[allow(clippy::eq_op)]
            let same_obj = r == r;
            let copy = *r;
            if same_obj || *r == copy || !(*r != copy) {
                bad = Some(format!("{:?} compares equal to itself/its copy although its NaN payload is not equal to itself", r));
            }
        }
        let one: P<u32, f64> = P::Update(1.0);
        #[allow(clippy::eq_op)]
        if !(one == one) {
            bad = Some("Update(1.0) != Update(1.0)".to_string());
        }
    }
    // heap-owning payloads: clone must be deep-equal and independent
    let s = |x: &str| x.to_string();
    let owned: Vec<P<String, String>> = vec![P::Put, P::Update(s("a")), P::Evicted { key: s("k"), value: s("v") }, P::EvictedAndUpdate { evicted: (s("k"), s("v")), update: s("u") }, P::Evicted { key: s("k"), value: s("w") }, P::EvictedAndUpdate { evicted: (s("k"), s("v")), update: s("x") }];
    for (i, x) in owned.iter().enumerate() {
        let c = x.clone();
        if c != *x {
            bad = Some(format!("clone of {:?} compares unequal", x));
        }
        for (j, y) in owned.iter().enumerate() {
            if (x == y) != (i == j) {
                bad = Some(format!("{:?} == {:?} is {}", x, y, x == y));
            }
        }
    }
    if let Some(d) = bad {
        out.add(Found {
            v: Violation { prop: "C12".into(), rule: "putresult-structural".into(), sig: "C12|putresult-structural".into(), detail: d, step: 0 },
            cfg: Cfg::lru(1),
            kt: KeyType::Tracked,
            ops: vec![],
            universe: vec![],
            seeds: [0; 4],
            extra: BTreeMap::new(),
        });
    }
}

/// setup histories that leave exactly `l` entries in list `list` of the given cache type
fn fill_list(kind: Kind, list: usize, l: u32) -> Option<(Cfg, Vec<Op>)> {
    let puts = |n: u32| -> Vec<Op> { (0..n).map(Op::Put).collect() };
    Some(match (kind, list) {
        (Kind::Lru, 0) => (Cfg::lru(5), puts(l)),
        (Kind::TwoQ, 0) => (Cfg::twoq(5, 0.5, 1.0), puts(l)),
        (Kind::TwoQ, 1) => {
            let mut o = puts(l);
            o.extend((0..l).map(|k| Op::Get(k, false)));
            (Cfg::twoq(5, 0.5, 1.0), o)
        }
        (Kind::TwoQ, 2) => (Cfg::twoq(4, 0.5, 1.0), puts(4 + l)),
        (Kind::Arc, 0) => (Cfg::arc(5), puts(l)),
        (Kind::Arc, 1) => {
            let mut o = puts(l);
            o.extend((0..l).map(|k| Op::Get(k, false)));
            (Cfg::arc(5), o)
        }
        (Kind::Arc, 2) => (Cfg::arc(4), puts(4 + l)),
        (Kind::Arc, 3) => {
            // fill the frequent list, then push its entries out through ghost hits on B1
            if l > 2 {
                return None;
            }
            let mut o = puts(2);
            o.extend([Op::Get(0, false), Op::Get(1, false)]);
            o.extend(puts(4)[2..].iter().copied());
            o.extend([Op::Put(10), Op::Put(11)]);
            if l == 0 {
                return Some((Cfg::arc(2), vec![]));
            }
            (Cfg::arc(2), o)
        }
        _ => return None,
    })
}

fn iter_exhaustive(ctx: &Ctx, props: Props, out: &mut ShardOut) {
    let mut idx = 0u64;
    for kind in [Kind::Lru, Kind::TwoQ, Kind::Arc] {
        let nl = kind.list_names().len();
        let fams: &[Fam] = if kind == Kind::Lru { &FAMS } else { &FAMS[..10] };
        for list in 0..nl {
            for l in 0..=4u32 {
                let (cfg, setup) = match fill_list(kind, list, l) {
                    Some(x) => x,
                    None => continue,
                };
                for &fam in fams {
                    idx += 1;
                    if idx % ctx.nshards != ctx.shard % ctx.nshards {
                        continue;
                    }
                    let uni: Vec<u32> = (0..12).collect();
                    let mut opts = RunOpts::new(props, uni);
                    opts.check_from = setup.len();
                    // the setup is only trusted to leave *some* list; the monitor compares the
                    // iterator with the hook's walk of whatever is there
                    let steps = (l + 2) as u8;
                    for pat in 0..(1u32 << steps) {
                        // the interpreter is ~10^4 times slower: it samples the interleavings
                        if cfg!(miri) && (pat.wrapping_mul(2654435761).wrapping_add(idx as u32 * 7 + ctx.seed as u32)) % 64 != 0 {
                            continue;
                        }
                        for (write, clone_at) in [(false, 255u8), (true, (pat % (steps as u32 + 1)) as u8)] {
                            let mut h = setup.clone();
                            h.push(Op::Iter(IterSpec { list: list as u8, fam, steps, pat, write, clone_at, fin: ((pat + idx as u32) % 9) as u8 }));
                            let r = run_history(&cfg, KeyType::Tracked, &h, &opts, &mut out.cov);
                            out.notes.bump("iter-exhaustive-cases");
                            if !r.violations.is_empty() {
                                let mut o2 = opts.clone();
                                o2.check_from = 0;
                                record(out, &cfg, KeyType::Tracked, &h, &o2, r.violations);
                            }
                        }
                    }
                }
            }
        }
    }
}

fn simple_found(prop: &str, rule: &str, detail: String) -> Found {
    Found {
        v: Violation { prop: prop.into(), rule: rule.into(), sig: format!("{}|{}", prop, rule), detail, step: 0 },
        cfg: Cfg::lru(1),
        kt: KeyType::Tracked,
        ops: vec![],
        universe: vec![],
        seeds: [0; 4],
        extra: BTreeMap::new(),
    }
}

/// Every constructor / builder / setter order must hand the requested sizes and ratios to the
/// parts: "stays within its configured bound" (C01) and the quota arithmetic of C08 presuppose
/// that the configured values arrive. Judged through the hooks and the public cap accessors.
pub fn config_propagation(out: &mut ShardOut, prop: &str) {
    use caches::{AdaptiveCache, AdaptiveCacheBuilder, Cache, SegmentedCache, SegmentedCacheBuilder, TwoQueueCache, TwoQueueCacheBuilder};
    let h = || DynBH::new(HKind::Fnv);
    let mut bad: Option<String> = None;
    let mut note = |cov: &mut Cov, what: &str| {
        cov.monitored += 1;
        cov.triples.insert(format!("config|{}", what));
    };
    // ---- RawLRU: the capacity handed to a constructor is the capacity enforced, at any size
    if matches!(prop, "C01" | "C06" | "C12") {
        use caches::RawLRU;
        for &n in &[1usize, 7, 1000, 5000, 70_000, 1 << 20] {
            let caps = [
                ("RawLRU::new", RawLRU::<u32, u32>::new(n).ok().map(|c| c.cap())),
                ("RawLRU::with_hasher", RawLRU::<u32, u32, _, _>::with_hasher(n, h()).ok().map(|c| c.cap())),
                ("RawLRU::with_on_evict_cb", RawLRU::<u32, u32, LogCb>::with_on_evict_cb(n, LogCb).ok().map(|c| c.cap())),
                ("RawLRU::with_on_evict_cb_and_hasher", RawLRU::<u32, u32, LogCb, _>::with_on_evict_cb_and_hasher(n, LogCb, h()).ok().map(|c| c.cap())),
            ];
            for (name, got) in caps {
                if let Some(g) = got {
                    if g != n {
                        bad = Some(format!("{}({}) builds a cache with cap() = {}", name, n, g));
                    }
                }
            }
            note(&mut out.cov, &format!("lru|{}", n));
        }
    }
    // ---- SegmentedCache
    if matches!(prop, "C01" | "C07" | "C12") {
        for &(a, b) in &[(1usize, 1usize), (1, 3), (3, 1), (2, 5), (7, 2), (70_000, 3), (3, 100_000), (5000, 6000)] {
            let mut chk = |name: &str, c: &dyn Fn() -> Option<(usize, usize, usize, usize, usize)>| {
                if let Some((pc, tc, plc, tlc, cap)) = c() {
                    if (pc, tc, plc, tlc, cap) != (a, b, a, b, a + b) {
                        bad = Some(format!("{} for probationary {} / protected {}: probationary_cap() {} protected_cap() {} real list caps {} / {} cap() {}", name, a, b, pc, tc, plc, tlc, cap));
                    }
                }
            };
            fn view<FH: std::hash::BuildHasher, RH: std::hash::BuildHasher>(c: &SegmentedCache<u32, u32, FH, RH>) -> (usize, usize, usize, usize, usize) {
                (c.probationary_cap(), c.protected_cap(), c.verif_probationary().cap(), c.verif_protected().cap(), c.cap())
            }
            chk("SegmentedCache::new", &|| SegmentedCache::<u32, u32>::new(a, b).ok().map(|c| view(&c)));
            chk("builder(a,b).finalize", &|| SegmentedCache::<u32, u32>::builder(a, b).finalize::<u32, u32>().ok().map(|c| view(&c)));
            chk("default().set_probationary_size.set_protected_size", &|| SegmentedCacheBuilder::default().set_probationary_size(a).set_protected_size(b).finalize::<u32, u32>().ok().map(|c| view(&c)));
            chk("default().set_protected_size.set_probationary_size", &|| SegmentedCacheBuilder::default().set_protected_size(b).set_probationary_size(a).finalize::<u32, u32>().ok().map(|c| view(&c)));
            chk("new(a,b).set_probationary_hasher.set_protected_hasher", &|| SegmentedCacheBuilder::new(a, b).set_probationary_hasher(h()).set_protected_hasher(h()).finalize::<u32, u32>().ok().map(|c| view(&c)));
            chk("new(a,b).set_protected_hasher.set_probationary_hasher", &|| SegmentedCacheBuilder::new(a, b).set_protected_hasher(h()).set_probationary_hasher(h()).finalize::<u32, u32>().ok().map(|c| view(&c)));
            chk("set_protected_hasher then sizes", &|| SegmentedCacheBuilder::default().set_protected_hasher(h()).set_probationary_size(a).set_probationary_hasher(h()).set_protected_size(b).finalize::<u32, u32>().ok().map(|c| view(&c)));
            chk("from_builder", &|| SegmentedCache::<u32, u32, _, _>::from_builder(SegmentedCacheBuilder::new(a, b).set_protected_hasher(h())).ok().map(|c| view(&c)));
            note(&mut out.cov, &format!("slru|{}-{}", a, b));
        }
    }
    // ---- TwoQueueCache
    if matches!(prop, "C01" | "C08" | "C12") {
        fn view<RH: std::hash::BuildHasher, FH: std::hash::BuildHasher, GH: std::hash::BuildHasher>(c: &TwoQueueCache<u32, u32, RH, FH, GH>) -> (usize, usize, usize, usize, usize) {
            (c.cap(), c.verif_recent().cap(), c.verif_frequent().cap(), c.verif_recent_quota(), c.verif_ghost().cap())
        }
        for &(n, rr, gr) in &[(4usize, 0.25f64, 0.5f64), (10, 0.2, 0.8), (10, 0.8, 0.2), (3, 0.0, 1.0), (7, 1.0, 0.34), (16, 0.3, 0.4), (5, 0.5, 0.5), (100_000, 0.25, 0.5), (70_000, 1.0, 1.0), (5000, 0.29, 0.58), (100, 0.29, 0.58), (50, 0.58, 0.29), (1000, 0.7, 0.7)] {
            let exp = (n, n, n, ((n as f64) * rr).floor() as usize, ((n as f64) * gr).floor() as usize);
            let mut chk = |name: &str, got: Option<(usize, usize, usize, usize, usize)>, e: (usize, usize, usize, usize, usize)| {
                if let Some(g) = got {
                    if g != e {
                        bad = Some(format!("{} (size {}, recent ratio {}, ghost ratio {}): (cap, recent cap, frequent cap, recent quota, ghost bound) = {:?}, expected {:?}", name, n, rr, gr, g, e));
                    }
                }
            };
            chk("with_2q_parameters", TwoQueueCache::<u32, u32>::with_2q_parameters(n, rr, gr).ok().map(|c| view(&c)), exp);
            chk("with_recent_ratio", TwoQueueCache::<u32, u32>::with_recent_ratio(n, rr).ok().map(|c| view(&c)), (n, n, n, exp.3, ((n as f64) * 0.5).floor() as usize));
            chk("with_ghost_ratio", TwoQueueCache::<u32, u32>::with_ghost_ratio(n, gr).ok().map(|c| view(&c)), (n, n, n, ((n as f64) * 0.25).floor() as usize, exp.4));
            chk("new", TwoQueueCache::<u32, u32>::new(n).ok().map(|c| view(&c)), (n, n, n, ((n as f64) * 0.25).floor() as usize, ((n as f64) * 0.5).floor() as usize));
            chk("builder: ratios then hashers", TwoQueueCacheBuilder::new(n).set_recent_ratio(rr).set_ghost_ratio(gr).set_recent_hasher(h()).set_frequent_hasher(h()).set_ghost_hasher(h()).finalize::<u32, u32>().ok().map(|c| view(&c)), exp);
            chk("builder: hashers then ratios", TwoQueueCacheBuilder::new(n).set_ghost_hasher(h()).set_frequent_hasher(h()).set_recent_hasher(h()).set_ghost_ratio(gr).set_recent_ratio(rr).finalize::<u32, u32>().ok().map(|c| view(&c)), exp);
            chk("builder: default().set_size last", TwoQueueCacheBuilder::default().set_recent_ratio(rr).set_frequent_hasher(h()).set_ghost_ratio(gr).set_size(n).finalize::<u32, u32>().ok().map(|c| view(&c)), exp);
            chk("from_builder", TwoQueueCache::<u32, u32, _, _, _>::from_builder(TwoQueueCache::<u32, u32>::builder(n).set_recent_ratio(rr).set_recent_hasher(h()).set_ghost_ratio(gr)).ok().map(|c| view(&c)), exp);
            note(&mut out.cov, &format!("twoq|{}-{}-{}", n, rr, gr));
        }
    }
    // ---- AdaptiveCache
    if matches!(prop, "C01" | "C09" | "C12") {
        fn view<A: std::hash::BuildHasher, B: std::hash::BuildHasher, C: std::hash::BuildHasher, D: std::hash::BuildHasher>(c: &AdaptiveCache<u32, u32, A, B, C, D>) -> (usize, usize, usize, usize, usize, usize) {
            (c.cap(), c.verif_recent().cap(), c.verif_frequent().cap(), c.verif_recent_evict().cap(), c.verif_frequent_evict().cap(), c.partition())
        }
        for &n in &[1usize, 2, 5, 16, 5000, 100_000] {
            let exp = (n, n, n, n, n, 0);
            let mut chk = |name: &str, got: Option<(usize, usize, usize, usize, usize, usize)>| {
                if let Some(g) = got {
                    if g != exp {
                        bad = Some(format!("{} (size {}): (cap, recent, frequent, recent ghost, frequent ghost bounds, p) = {:?}, expected {:?}", name, n, g, exp));
                    }
                }
            };
            chk("new", AdaptiveCache::<u32, u32>::new(n).ok().map(|c| view(&c)));
            chk("builder(n)", AdaptiveCache::<u32, u32>::builder(n).finalize::<u32, u32>().ok().map(|c| view(&c)));
            chk("default().set_size + hashers", AdaptiveCacheBuilder::default().set_recent_hasher(h()).set_size(n).set_frequent_evict_hasher(h()).set_frequent_hasher(h()).set_recent_evict_hasher(h()).finalize::<u32, u32>().ok().map(|c| view(&c)));
            chk("from_builder", AdaptiveCache::<u32, u32, _, _, _, _>::from_builder(AdaptiveCacheBuilder::new(n).set_frequent_hasher(h())).ok().map(|c| view(&c)));
            note(&mut out.cov, &format!("arc|{}", n));
        }
    }
    if let Some(d) = bad {
        out.add(simple_found(prop, "config-propagation", d));
    }
}

/// C06 with a zero-sized value type: recency order is about keys; nothing may be short-cut
/// because "there is no value to store". Same LRU model, values erased.
pub fn zst_value_order(out: &mut ShardOut, rng: &mut Rng, histories: u64) {
    use crate::model::{Model, NoEst};
    use caches::{Cache, PutResult, RawLRU, ResizableCache};
    for _ in 0..histories {
        let cap = rng.range(1, 6) as usize;
        let nkeys = cap as u64 + rng.range(1, 3);
        let cfg = Cfg::lru(cap);
        let mut model = Model::new(&cfg);
        let mut real: RawLRU<u32, (), caches::DefaultEvictCallback, DynBH> = match RawLRU::with_hasher(cap, DynBH::new(HKind::Fnv)) {
            Ok(r) => r,
            Err(_) => continue,
        };
        let n = rng.range(5, 40);
        let mut trace: Vec<String> = vec![];
        for i in 0..n {
            let k = rng.below(nkeys) as u32;
            let op = match rng.below(12) {
                0..=4 => Op::Put(k),
                5..=6 => Op::Get(k, false),
                7 => Op::GetMut(k, false, false),
                8 => Op::Remove(k, false),
                9 => Op::GetLru,
                10 => Op::PeekOrPut(k),
                _ => Op::Resize(rng.below(cap as u64 + 2) as usize),
            };
            let r = guarded(|| -> Option<u32> {
                match op {
                    Op::Put(k) => match real.put(k, ()) {
                        PutResult::Evicted { key, .. } => Some(key),
                        _ => None,
                    },
                    Op::Get(k, _) => {
                        real.get(&k);
                        None
                    }
                    Op::GetMut(k, _, _) => {
                        real.get_mut(&k);
                        None
                    }
                    Op::Remove(k, _) => {
                        real.remove(&k);
                        None
                    }
                    Op::GetLru => {
                        real.get_lru();
                        None
                    }
                    Op::PeekOrPut(k) => match real.peek_or_put(k, ()).1 {
                        Some(PutResult::Evicted { key, .. }) => Some(key),
                        _ => None,
                    },
                    Op::Resize(n) => {
                        real.resize(n);
                        None
                    }
                    _ => None,
                }
            });
            let evicted = match r {
                Ok(e) => e,
                Err(_) => break,
            };
            // values of the model are irrelevant: every value id is 0
            let outs = model.step(&op, 0, &NoEst);
            trace.push(op.to_string());
            let got: Vec<u32> = real.keys().copied().collect();
            let mut ok = false;
            let mut exp_desc = String::new();
            for o in &outs {
                let exp: Vec<u32> = o.st.lists[0].iter().map(|e| e.0).collect();
                let exp_ev = match &o.res {
                    Res::Put(PR::Evicted(k, _)) | Res::OrPut(_, _, Some(PR::Evicted(k, _))) => Some(*k),
                    _ => None,
                };
                exp_desc = format!("{:?} (evicting {:?})", exp, exp_ev);
                if exp == got && exp_ev == evicted && real.cap() == o.st.cap {
                    model.st = o.st.clone();
                    ok = true;
                    break;
                }
            }
            out.cov.monitored += 1;
            out.cov.triples.insert(format!("zst-values|lru|{}|cap{}", op.name(), cap));
            if !ok {
                out.add(simple_found("C06", "zst-value-order", format!("RawLRU<u32, ()> cap {}: after [{}] the keys are {:?} (evicted {:?}), the LRU order prescribes {}", cap, trace.join("; "), got, evicted, exp_desc)));
                return;
            }
            let _ = i;
        }
    }
}

/// C10: every constructor must hand the requested sizes and sample size to the parts (the
/// reset schedule of the estimator is part of "records one access ... for all sample sizes")
fn wtlfu_config_propagation(out: &mut ShardOut) {
    use caches::{Cache, WTinyLFUCache};
    let mut bad: Option<String> = None;
    let mut check = |name: String, c: &WTinyLFUCache<u32, u32>, w: usize, t: usize, p: usize, samples: usize| {
        let d = c.verif_estimator().verif_digest();
        let m = c.verif_main();
        if d.1 != samples || c.window_cache_cap() != w || m.protected_cap() != t || m.probationary_cap() != p || c.cap() != w + t + p || d.0 != 0
            || c.verif_window().cap() != w || m.verif_protected().cap() != t || m.verif_probationary().cap() != p
        {
            bad = Some(format!(
                "{}: built with window {} / protected {} / probationary {} / samples {} (reset clock {}), requested {} / {} / {} / {}",
                name, c.window_cache_cap(), m.protected_cap(), m.probationary_cap(), d.1, d.0, w, t, p, samples
            ));
        }
    };
    for &(w, t, p, s) in &[(1usize, 1usize, 1usize, 1usize), (1, 2, 3, 4), (3, 1, 2, 7), (2, 8, 2, 100), (1, 3, 1, 2), (5000, 70_000, 6000, 100_000)] {
        if let Ok(c) = WTinyLFUCache::<u32, u32>::with_sizes(w, t, p, s) {

            check(format!("with_sizes({}, {}, {}, {})", w, t, p, s), &c, w, t, p, s);
        }
        out.cov.monitored += 1;
        out.cov.triples.insert(format!("config|wtlfu|with_sizes|{}-{}-{}-{}", w, t, p, s));
    }
    for &(n, s) in &[(100usize, 4usize), (100, 1), (200, 1000), (1000, 10), (150, 3)] {
        let (w, t, p) = (((n as f64) * 0.01) as usize, ((n as f64) * 0.8) as usize, ((n as f64) * (1f64 - 0.8)) as usize);
        if let Ok(c) = WTinyLFUCache::<u32, u32>::new(n, s) {
            check(format!("new({}, {})", n, s), &c, w, t, p, s);
        }
        out.cov.monitored += 1;
        out.cov.triples.insert(format!("config|wtlfu|new|{}-{}", n, s));
    }
    // the builder with every setter, in two orders
    {
        use caches::WTinyLFUCacheBuilder;
        use crate::subject::DynKH;
        let h = || DynBH::new(HKind::Fnv);
        for &(w, t, p, s) in &[(1usize, 2usize, 3usize, 4usize), (3, 1, 2, 9), (2, 5, 1, 1)] {
            let a = WTinyLFUCacheBuilder::<u32>::new(w, t, p, s)
                .set_key_hasher(DynKH(DynBH::new(HKind::Ident)))
                .set_window_hasher(h())
                .set_protected_hasher(h())
                .set_probationary_hasher(h())
                .set_false_positive_ratio(0.02)
                .finalize::<u32>();
            let b = WTinyLFUCacheBuilder::<u32>::default()
                .set_probationary_hasher(h())
                .set_false_positive_ratio(0.3)
                .set_samples(s)
                .set_protected_hasher(h())
                .set_probationary_cache_size(p)
                .set_window_hasher(h())
                .set_window_cache_size(w)
                .set_key_hasher(DynKH(DynBH::new(HKind::Ident)))
                .set_protected_cache_size(t)
                .finalize::<u32>();
            for (name, c) in [("builder new(..) + all setters", a), ("builder default() + setters in another order", b)] {
                if let Ok(c) = c {
                    let d = c.verif_estimator().verif_digest();
                    let m = c.verif_main();
                    if d.1 != s || c.window_cache_cap() != w || m.protected_cap() != t || m.probationary_cap() != p || c.cap() != w + t + p
                        || c.verif_window().cap() != w || m.verif_protected().cap() != t || m.verif_probationary().cap() != p
                    {
                        bad = Some(format!("{}: window {} / protected {} / probationary {} / samples {}, requested {} / {} / {} / {}", name, c.window_cache_cap(), m.protected_cap(), m.probationary_cap(), d.1, w, t, p, s));
                    }
                }
                out.cov.monitored += 1;
            }
            out.cov.triples.insert(format!("config|wtlfu|builder|{}-{}-{}-{}", w, t, p, s));
        }
    }
    if let Some(d) = bad {
        out.add(simple_found("C10", "config-propagation", d));
    }
}

/// C04: conversions (`From` / `FromIterator`) own their input too, including inputs that
/// repeat a key: every pair is retained or dropped exactly once, purge and drop release all
fn conversions_conserve(out: &mut ShardOut, rng: &mut Rng) {
    use caches::{Cache, RawLRU};
    use std::collections::{LinkedList, VecDeque};
    for round in 0..60u32 {
        reg_reset();
        let n = rng.range(0, 12) as usize;
        let dup = round % 2 == 0;
        let mut keys: Vec<u32> = (0..n as u32).collect();
        if dup && n > 0 {
            let extra: Vec<u32> = (0..rng.range(1, 4)).map(|_| rng.below(n as u64) as u32).collect();
            keys.extend(extra);
        }
        let distinct = keys.iter().collect::<std::collections::BTreeSet<_>>().len() as u64;
        let mk = |keys: &[u32]| -> Vec<(TKey, TVal)> { keys.iter().enumerate().map(|(i, k)| (TKey::new(*k), TVal::new(i as u64 + 1))).collect() };
        let which = round % 5;
        let r = guarded(|| {
            let mut c: RawLRU<TKey, TVal> = match which {
                0 => RawLRU::from(mk(&keys)),
                1 => mk(&keys).into_iter().collect(),
                2 => RawLRU::from(mk(&keys).into_iter().collect::<VecDeque<_>>()),
                3 => RawLRU::from(mk(&keys).into_iter().collect::<LinkedList<_>>()),
                _ => {
                    let v = mk(&keys);
                    let c = RawLRU::from(&v[..]);
                    drop(v);
                    c
                }
            };
            let errs = reg_take_errors();
            if let Some(e) = errs.first() {
                return Some(format!("{} while converting {} pairs ({} distinct keys)", e, keys.len(), distinct));
            }
            let (lk, lv) = reg_live();
            if c.len() as u64 != distinct || lk != distinct || lv != distinct {
                return Some(format!("conversion {} of {} pairs ({} distinct keys): len() = {}, {} keys / {} values alive afterwards", which, keys.len(), distinct, c.len(), lk, lv));
            }
            if round % 3 == 0 {
                c.purge();
                let (lk, lv) = reg_live();
                if lk != 0 || lv != 0 || !c.is_empty() {
                    return Some(format!("purge after conversion {} of {} pairs ({} distinct): {} keys / {} values still alive", which, keys.len(), distinct, lk, lv));
                }
            }
            drop(c);
            let (lk, lv) = reg_live();
            if lk != 0 || lv != 0 {
                return Some(format!("drop after conversion {} of {} pairs ({} distinct): {} keys / {} values still alive", which, keys.len(), distinct, lk, lv));
            }
            reg_take_errors().first().map(|e| format!("{} when dropping a converted cache", e))
        });
        out.cov.monitored += 1;
        out.cov.triples.insert(format!("conversion|lru|kind{}|n{}|dup{}", which, n.min(3), dup));
        let d = match r {
            Ok(x) => x,
            Err(_) => None,
        };
        if let Some(d) = d {
            out.add(simple_found("C04", "conversion-conservation", d));
            return;
        }
    }
}


/// C04 with payload shapes the tracked-key/tracked-value runs never have: a key that owns
/// something next to a value without drop glue (and the reverse, and a zero-sized value).
/// Nothing is kept by the harness, so every object still alive belongs to the cache: after
/// `purge` and after dropping the cache the registry must be empty, and for the plain LRU
/// the number of live objects must equal `len()` after every step.
fn shape_run<K: std::hash::Hash + Eq, V, C: caches::Cache<K, V>>(mut c: C, mk: &dyn Fn(u32) -> K, mv: &dyn Fn(u64) -> V, rng: &mut Rng, nkeys: u64, nops: u64, tk: bool, tv: bool, exact: bool, what: &str) -> Option<String> {
    let mut vid = 0u64;
    for step in 0..nops {
        let k = rng.below(nkeys) as u32;
        match rng.below(10) {
            0..=5 => {
                vid += 1;
                drop(c.put(mk(k), mv(vid)));
            }
            6..=7 => {
                let q = mk(k);
                let _ = c.get(&q);
            }
            8 => {
                let q = mk(k);
                drop(c.remove(&q));
            }
            _ => {
                if rng.below(8) == 0 {
                    c.purge();
                    let (lk, lv) = reg_live();
                    if lk != 0 || lv != 0 {
                        return Some(format!("{}: purge at step {} left {} keys / {} values alive", what, step, lk, lv));
                    }
                }
            }
        }
        if let Some(e) = reg_take_errors().first() {
            return Some(format!("{}: {} at step {}", what, e, step));
        }
        let (lk, lv) = reg_live();
        let n = c.len() as u64;
        let bad_k = tk && (if exact { lk != n } else { lk < n });
        let bad_v = tv && (if exact { lv != n } else { lv < n });
        if bad_k || bad_v {
            return Some(format!("{}: step {}: len() = {} but {} keys / {} values alive", what, step, n, lk, lv));
        }
    }
    drop(c);
    let (lk, lv) = reg_live();
    if lk != 0 || lv != 0 {
        return Some(format!("{}: {} keys / {} values still alive after the cache was dropped", what, lk, lv));
    }
    reg_take_errors().first().map(|e| format!("{}: {} when the cache was dropped", what, e))
}

fn payload_shapes_conserve(out: &mut ShardOut, rng: &mut Rng) {
    use caches::{AdaptiveCache, RawLRU, SegmentedCache, TwoQueueCache, WTinyLFUCache};
    macro_rules! shapes {
        ($kind:expr, $exact:expr, $mk:expr) => {{
            // (tracked key, plain value), (plain key, tracked value), (tracked key, zero-sized value)
            for shape in 0..3u32 {
                reg_reset();
                let nkeys = rng.range(3, 14);
                let nops = if cfg!(miri) { rng.range(10, 30) } else { rng.range(20, 120) };
                let what = format!("{} shape {}", $kind, ["(TKey, u64)", "(u32, TVal)", "(TKey, ())"][shape as usize]);
                let r = guarded(|| match shape {
                    0 => $mk.and_then(|c| shape_run::<TKey, u64, _>(c, &|k| TKey::new(k), &|v| v, rng, nkeys, nops, true, false, $exact, &what)),
                    1 => $mk.and_then(|c| shape_run::<u32, TVal, _>(c, &|k| k, &|v| TVal::new(v), rng, nkeys, nops, false, true, $exact, &what)),
                    _ => $mk.and_then(|c| shape_run::<TKey, (), _>(c, &|k| TKey::new(k), &|_| (), rng, nkeys, nops, true, false, $exact, &what)),
                });
                out.cov.monitored += nops;
                out.cov.triples.insert(format!("payload-shape|{}|{}", $kind, shape));
                if let Ok(Some(d)) = r {
                    out.add(simple_found("C04", "payload-shape-conservation", d));
                    return;
                }
            }
        }};
    }
    for _ in 0..(if cfg!(miri) { 1 } else { 6 }) {
        let cap = rng.range(1, 6) as usize;
        shapes!("lru", true, RawLRU::new(cap).ok());
        shapes!("slru", false, SegmentedCache::new(cap, rng.range(1, 4) as usize).ok());
        shapes!("twoq", false, TwoQueueCache::new(cap + 1).ok());
        shapes!("arc", false, AdaptiveCache::new(cap).ok());
        shapes!("wtlfu", false, WTinyLFUCache::new(cap + 2, 16).ok());
    }
}


/// The value type must not matter for which entry is kept: the same keys-only history on a
/// cache with a zero-sized value type and on one with `u64` values must give the same results
/// (variant and keys of every `PutResult`, hits and misses) and the same residency after every
/// step. (The `u64` twin is what the reference-model runs of the same check drive.)
fn zst_twin_run<A: caches::Cache<u32, ()>, B: caches::Cache<u32, u64>>(mut a: A, mut b: B, rng: &mut Rng, nkeys: u64, nops: u64, what: &str) -> Option<String> {
    use caches::PutResult;
    fn shape<V>(r: &PutResult<u32, V>) -> (u8, u32, u32) {
        match r {
            PutResult::Put => (0, 0, 0),
            PutResult::Update(_) => (1, 0, 0),
            PutResult::Evicted { key, .. } => (2, *key, 0),
            PutResult::EvictedAndUpdate { evicted, .. } => (3, evicted.0, 0),
        }
    }
    let mut log: Vec<String> = vec![];
    for step in 0..nops {
        let k = rng.below(nkeys) as u32;
        let (x, y, name) = match rng.below(10) {
            0..=4 => (shape(&a.put(k, ())), shape(&b.put(k, step)), "put"),
            5..=7 => ((a.get(&k).is_some() as u8, 0, 0), (b.get(&k).is_some() as u8, 0, 0), "get"),
            8 => ((a.get_mut(&k).is_some() as u8, 0, 0), (b.get_mut(&k).is_some() as u8, 0, 0), "get_mut"),
            _ => ((a.remove(&k).is_some() as u8, 0, 0), (b.remove(&k).is_some() as u8, 0, 0), "remove"),
        };
        log.push(format!("{}({})", name, k));
        let res_a: Vec<u32> = (0..nkeys as u32).filter(|q| a.contains(q)).collect();
        let res_b: Vec<u32> = (0..nkeys as u32).filter(|q| b.contains(q)).collect();
        if x != y || res_a != res_b || a.len() != b.len() {
            let from = log.len().saturating_sub(25);
            return Some(format!("{}: step {} {}({}): with () values -> {:?}, resident {:?}; with u64 values -> {:?}, resident {:?}; history tail: {}", what, step, name, k, x, res_a, y, res_b, log[from..].join(" ")));
        }
    }
    None
}

fn zst_value_twins(out: &mut ShardOut, rng: &mut Rng, kind: Kind, histories: u64) {
    use caches::{AdaptiveCache, RawLRU, SegmentedCache, TwoQueueCache};
    for _ in 0..histories {
        let cap = rng.range(1, 6) as usize;
        let nkeys = cap as u64 + rng.range(1, 5);
        let nops = rng.range(10, 80);
        let r = guarded(|| match kind {
            Kind::Lru => RawLRU::<u32, ()>::new(cap).ok().zip(RawLRU::<u32, u64>::new(cap).ok()).and_then(|(a, b)| zst_twin_run(a, b, rng, nkeys, nops, &format!("lru({})", cap))),
            Kind::Slru => {
                let pt = rng.range(1, 4) as usize;
                SegmentedCache::<u32, ()>::new(cap, pt).ok().zip(SegmentedCache::<u32, u64>::new(cap, pt).ok()).and_then(|(a, b)| zst_twin_run(a, b, rng, nkeys + pt as u64, nops, &format!("slru({},{})", cap, pt)))
            }
            Kind::TwoQ => TwoQueueCache::<u32, ()>::new(cap + 1).ok().zip(TwoQueueCache::<u32, u64>::new(cap + 1).ok()).and_then(|(a, b)| zst_twin_run(a, b, rng, nkeys + 2, nops, &format!("twoq({})", cap + 1))),
            Kind::Arc => AdaptiveCache::<u32, ()>::new(cap).ok().zip(AdaptiveCache::<u32, u64>::new(cap).ok()).and_then(|(a, b)| zst_twin_run(a, b, rng, nkeys + 2, nops, &format!("arc({})", cap))),
            Kind::Wtlfu => None,
        });
        out.cov.monitored += nops;
        out.cov.triples.insert(format!("zst-twin|{}|cap{}", kind.name(), cap));
        if let Ok(Some(d)) = r {
            out.add(simple_found(crate::engine::model_prop(kind), "zst-value-twin", d));
            return;
        }
    }
}


/// Single `resize` calls that discard tens of thousands of entries (thresholds such as 32768
/// or 65536 in one call). The per-step snapshots of the history engine are quadratic at that
/// size, so this battery judges the outcome of the one call: returned count, callback log
/// (every discarded pair, least recent first), survivors and their order, the bound being
/// enforced by the next put, and the object registry after the cache is gone.
fn giant_resize_battery(out: &mut ShardOut, prop: &str) {
    use caches::{Cache, PutResult, RawLRU, ResizableCache};
    for &(n, cut) in &[(40_000u32, 39_900u32), (33_000, 32_768), (33_000, 32_769), (70_000, 65_537), (140_000, 100_000)] {
        reg_reset();
        cb_take();
        let r = guarded(|| -> Option<String> {
            let mut c: RawLRU<TKey, TVal, LogCb, DynBH> = RawLRU::with_on_evict_cb_and_hasher(n as usize, LogCb, DynBH::new(HKind::Fnv)).ok()?;
            for k in 0..n {
                c.put(TKey::new(k), TVal::new(k as u64 + 1));
            }
            let touched = [0u32, 5, 17, n / 2];
            for t in touched {
                c.get(&KNum(t));
            }
            // least recent first
            let mut order: Vec<u32> = (0..n).filter(|k| !touched.contains(k)).collect();
            order.extend(touched);
            if !cb_take().is_empty() {
                return Some("callbacks while filling a cache that never overflowed".into());
            }
            let ret = c.resize((n - cut) as usize);
            let log = cb_take();
            let what = format!("resize({}) of a full cache of {} entries", n - cut, n);
            if matches!(prop, "C06" | "C01") && ret != cut as u64 {
                return Some(format!("{} returned {} (expected {})", what, ret, cut));
            }
            if matches!(prop, "C06" | "C01") && (c.len() != (n - cut) as usize || c.cap() != (n - cut) as usize) {
                return Some(format!("{}: len() = {}, cap() = {} afterwards", what, c.len(), c.cap()));
            }
            if prop == "C15" {
                let exp: Vec<(u32, u64)> = order[..cut as usize].iter().map(|k| (*k, *k as u64 + 1)).collect();
                if log != exp {
                    let i = log.iter().zip(exp.iter()).position(|(a, b)| a != b).unwrap_or(log.len().min(exp.len()));
                    return Some(format!("{}: callback log has {} entries (expected {}), first difference at #{}: {:?} vs expected {:?}", what, log.len(), exp.len(), i, log.get(i), exp.get(i)));
                }
            }
            if prop == "C06" {
                let left: Vec<u32> = c.iter_lru().map(|(k, _)| k.n.0).collect();
                if left != order[cut as usize..] {
                    return Some(format!("{}: {} survivors, the first few (least recent first) {:?}, expected {:?}", what, left.len(), &left[..left.len().min(5)], &order[cut as usize..cut as usize + 5]));
                }
                match c.put(TKey::new(n + 1), TVal::new(7)) {
                    PutResult::Evicted { key, .. } if key.n.0 == order[cut as usize] => {}
                    other => return Some(format!("{}: the next put of a new key gave {:?}-like result instead of evicting key {}", what, std::mem::discriminant(&other), order[cut as usize])),
                }
            }
            if prop == "C04" {
                let (lk, lv) = reg_live();
                if lk != c.len() as u64 || lv != c.len() as u64 {
                    return Some(format!("{}: {} keys / {} values alive, len() = {}", what, lk, lv, c.len()));
                }
            }
            drop(c);
            if prop == "C04" {
                let (lk, lv) = reg_live();
                if lk != 0 || lv != 0 {
                    return Some(format!("{}: {} keys / {} values alive after the cache was dropped", what, lk, lv));
                }
                if let Some(e) = reg_take_errors().first() {
                    return Some(format!("{}: {}", what, e));
                }
            }
            None
        });
        cb_take();
        out.cov.monitored += n as u64 + 8;
        out.cov.triples.insert(format!("giant-resize|{}|{}", n, cut));
        if let Ok(Some(d)) = r {
            out.add(simple_found(prop, "giant-resize", d));
            return;
        }
    }
}

/// the engine-based check of one property on one shard
pub fn engine_suite(ctx: &Ctx) -> ShardOut {
    let mut out = ShardOut::default();
    if ctx.prop == "C10" && ctx.shard == 0 {
        wtlfu_config_propagation(&mut out);
    }
    if matches!(ctx.prop.as_str(), "C01" | "C06" | "C07" | "C08" | "C09" | "C12") && ctx.shard == 0 {
        config_propagation(&mut out, &ctx.prop);
    }
    if ctx.prop == "C04" {
        let mut r = Rng::new(mix(ctx.seed, 0xC04C) ^ ctx.shard);
        conversions_conserve(&mut out, &mut r);
        payload_shapes_conserve(&mut out, &mut r);
    }
    if ctx.prop == "C06" && !cfg!(miri) {
        let mut r = Rng::new(mix(ctx.seed, 0xC062) ^ ctx.shard);
        zst_value_order(&mut out, &mut r, 2000);
    }
    if matches!(ctx.prop.as_str(), "C06" | "C07" | "C08" | "C09") && !cfg!(miri) {
        let mut r = Rng::new(mix(ctx.seed, 0xC0_25) ^ ctx.shard);
        let kind = kinds_for(&ctx.prop)[0];
        zst_value_twins(&mut out, &mut r, kind, 1500);
    }
    if matches!(ctx.prop.as_str(), "C01" | "C04" | "C06" | "C15") && ctx.shard == 0 && !cfg!(miri) && matches!(ctx.variant.as_str(), "dbg-std" | "rel-std" | "dbg-nostd" | "rel-nostd") {
        giant_resize_battery(&mut out, &ctx.prop);
    }
    if ctx.prop == "C12" && ctx.shard == 0 {
        putresult_structural(&mut out);
    }
    let prop = ctx.prop.as_str();
    let props = props_for(prop);
    let kinds = kinds_for(prop);
    let opmix = mix_for(prop);
    let t0 = Instant::now();
    let deadline = t0 + std::time::Duration::from_secs(ctx.max_secs);
    set_heapy(ctx.heapy);
    let mut rng = Rng::new(mix(ctx.seed, hash_str(prop)) ^ ctx.shard.wrapping_mul(0x9E37_79B9));

    // ---- 1. directed scripts (every shard runs them: they are tiny and give the must-see
    //         classes independent of luck)
    let mut dir_idx = 0u64;
    for &kind in &kinds {
        for (cfg, ops, name) in directed(kind) {
            dir_idx += 1;
            if ctx.spread_directed && dir_idx % ctx.nshards != ctx.shard % ctx.nshards {
                continue;
            }
            let uni: Vec<u32> = (0..10).collect();
            for kt in [KeyType::Tracked, KeyType::Str] {
                if prop == "C04" && kt == KeyType::Str {
                    continue;
                }
                // the interpreter runs one variant of each script (alternating key types)
                if cfg!(miri) && prop != "C04" && (kt == KeyType::Str) != (dir_idx % 2 == 0) {
                    continue;
                }
                for ctor in [0u8, 1] {
                    if cfg!(miri) && ctor == 1 {
                        continue;
                    }
                    let cfg = cfg.clone().with_ctor(ctor);
                    let mut opts = RunOpts::new(props, uni.clone());
                    opts.lookup_audit = props.c03;
                    opts.record_sample = out.cov.samples.len() < 2;
                    let r = run_history(&cfg, kt, &ops, &opts, &mut out.cov);
                    out.notes.bump(&format!("directed:{}", name));
                    if opts.record_sample && !r.trace.is_empty() {
                        out.cov.samples.push(format!("{} {}: {}", cfg.describe(), kt.name(), r.trace.join("; ")));
                    }
                    if let Some(e) = r.build_err {
                        out.notes.bump(&format!("build-err:{}", e));
                    }
                    record(&mut out, &cfg, kt, &ops, &opts, r.violations);
                }
            }
        }
    }

    // ---- 1b. admission between (nearly) saturated estimates
    if prop == "C10" && !cfg!(miri) && ctx.variant != "valgrind" {
        let uni: Vec<u32> = (0..10).collect();
        for (i, (cfg, ops)) in crate::gen::saturation_grid().into_iter().enumerate() {
            if i as u64 % ctx.nshards != ctx.shard % ctx.nshards {
                continue;
            }
            let opts = RunOpts::new(props, uni.clone());
            let r = run_history(&cfg, KeyType::Tracked, &ops, &opts, &mut out.cov);
            out.notes.bump("directed:saturation-grid");
            record(&mut out, &cfg, KeyType::Tracked, &ops, &opts, r.violations);
        }
    }

    // ---- 1a. a few histories with thousands of entries (thresholds such as 1024 or 4096 in
    //          capacities, lengths and single-call eviction counts), native builds only
    if !cfg!(miri) && ctx.shard < (if props.needs_probes() { 1 } else { 2 }) && ctx.variant != "valgrind" && ctx.variant != "asan" && (ctx.variant != "dbg-talloc" || ctx.thorough) {
        for &kind in &kinds {
            let (cfg, ops, uni) = huge_history(kind, ctx.shard as usize, &mut rng);
            let kt = if prop == "C04" || ctx.shard == 0 { KeyType::Tracked } else { KeyType::Str };
            let mut opts = RunOpts::new(props, uni);
            opts.lookup_audit = false;
            let r = run_history(&cfg, kt, &ops, &opts, &mut out.cov);
            out.notes.bump("huge-history");
            record(&mut out, &cfg, kt, &ops[..r.steps_done.min(ops.len())], &opts, r.violations);
        }
        if kinds.contains(&Kind::Arc) {
            let (cfg, ops, uni) = crate::gen::arc_large_scripts(ctx.shard as usize);
            let mut opts = RunOpts::new(props, uni);
            opts.lookup_audit = false;
            let r = run_history(&cfg, KeyType::Tracked, &ops, &opts, &mut out.cov);
            out.notes.bump("arc-large-script");
            record(&mut out, &cfg, KeyType::Tracked, &ops[..r.steps_done.min(ops.len())], &opts, r.violations);
        }
    }

    // ---- 1b. C14: for list lengths 0..4 every next/next_back interleaving of length len+2,
    //          for every iterator family of every list that can be filled deterministically
    if prop == "C14" {
        iter_exhaustive(ctx, props, &mut out);
    }

    // ---- 2. bounded-exhaustive exploration, configurations dealt round-robin to shards
    let mut all_bfs = vec![];
    for &kind in &kinds {
        for (cfg, u) in bfs_cfgs(kind, ctx.thorough) {
            all_bfs.push((cfg, u));
        }
    }
    for (i, (cfg, u)) in all_bfs.iter().enumerate() {
        if (i as u64) % ctx.nshards != ctx.shard % ctx.nshards {
            continue;
        }
        if ctx.bfs_states == 0 {
            break;
        }
        let uni: Vec<u32> = (0..*u as u32).collect();
        let alpha = alphabet(cfg, &uni, ctx.thorough);
        let kt = if prop == "C02" && i % 2 == 1 { KeyType::Str } else { KeyType::Tracked };
        let (states, transitions, exhausted) =
            explore(cfg, kt, &uni, &alpha, ctx.bfs_states, props, &mut out, deadline);
        out.bfs.push(
            J::obj()
                .set("config", J::s(cfg.describe()))
                .set("keys", J::u(uni.len()))
                .set("alphabet", J::u(alpha.len()))
                .set("states", J::u(states))
                .set("transitions", J::U(transitions))
                .set("exhausted", J::B(exhausted)),
        );
    }

    // ---- 3. random hostile histories over the configuration grid
    let mut done = 0u64;
    while done < ctx.ops {
        if Instant::now() > deadline {
            out.timed_out = true;
            break;
        }
        let kind = *rng.pick(&kinds);
        let mut cfg = random_cfg(kind, &mut rng, ctx.thorough);
        let kt = keytype_for(prop, &mut rng);
        let mut uni = universe_for(&cfg, &mut rng);
        let mut converted = false;
        if kind == Kind::Lru && matches!(prop, "C01" | "C02" | "C03" | "C04") && rng.chance(1, 5) {
            // a cache built by a conversion (possibly from input that repeats keys), or one
            // without an eviction callback
            if rng.chance(2, 3) {
                let n = rng.range(0, 10);
                let span = rng.range(1, 8);
                cfg.init = (0..n).map(|_| rng.below(span) as u32).collect();
                cfg.ctor = 3;
                cfg.a = rng.below(3) as usize;
                uni = (0..(span as u32 + 3)).collect();
                converted = true;
            } else {
                cfg.no_cb = true;
                cfg.ctor = 0;
            }
        }
        let mut n = (rng.range(ctx.hist_len as u64 / 4, ctx.hist_len as u64) as usize).max(4);
        if cfg.total() > 60 && !cfg!(miri) {
            n *= 40;
        } else if cfg.total() > 10 && !cfg!(miri) {
            // medium-sized configurations need longer histories to fill up and churn
            n *= 6;
        }
        let mut ops = random_history(&cfg, &uni, n, &mut rng, opmix);
        if converted {
            // judge the freshly converted cache before anything else touches it
            ops.insert(0, Op::Len);
            ops.insert(1, Op::RemoveLru);
        }
        let mut opts = RunOpts::new(props, uni.clone());
        opts.lookup_audit = props.c03 && rng.chance(1, 2);
        opts.seeds = [rng.next(), rng.next(), rng.next(), rng.next()];
        opts.record_sample = out.cov.samples.len() < 4;
        if matches!(prop, "C01" | "C03" | "C04" | "C06" | "C07" | "C10" | "C12" | "C15") && matches!(kind, Kind::Lru | Kind::Slru | Kind::Wtlfu) && rng.chance(1, 3) {
            // continue on a clone from some point on - now and then from a point where the
            // cache is empty (the very beginning, right after a purge)
            let after_purge: Vec<usize> = ops.iter().enumerate().filter(|(_, o)| matches!(o, Op::Purge | Op::Resize(0))).map(|(i, _)| i + 1).collect();
            opts.clone_swap_at = Some(match rng.below(4) {
                0 => 0,
                1 if !after_purge.is_empty() => *rng.pick(&after_purge),
                _ => rng.below(ops.len() as u64) as usize,
            });
        }
        let r = run_history(&cfg, kt, &ops, &opts, &mut out.cov);
        done += r.steps_done.max(1) as u64;
        if let Some(e) = &r.build_err {
            out.notes.bump(&format!("build-err:{}", e));
            if e.starts_with("PANIC") && props.c05 {
                // judged by the constructor grid of C05
            }
            continue;
        }
        if opts.record_sample && !r.trace.is_empty() {
            let t: Vec<String> = r.trace.iter().take(24).cloned().collect();
            out.cov.samples.push(format!("{} {} keys={}: {}", cfg.describe(), kt.name(), uni.len(), t.join("; ")));
        }
        if !r.violations.is_empty() {
            let mut f = BTreeMap::new();
            f.insert("seeds".to_string(), format!("{:?}", opts.seeds));
            record(&mut out, &cfg, kt, &ops[..r.steps_done], &opts, r.violations);
        }
    }
    out
}
