//! Instrumented executor and the online monitors. One history = one real cache built from
//! the current tree, driven op by op; after every op the post-state is read through the
//! hooks (structural audit) and handed, with the pre-state, the op and its result, to the
//! monitors enabled for the property being checked.
use crate::model::*;
use crate::ops::*;
use crate::subject::*;
use crate::track::*;
use crate::util::*;
use std::collections::{BTreeMap, BTreeSet, HashMap, HashSet};

#[derive(Clone, Debug)]
pub struct Violation {
    pub prop: String,
    pub rule: String,
    /// stable signature: property / cache type / rule / op / pre-state class (no line numbers)
    pub sig: String,
    pub detail: String,
    pub step: usize,
}

#[derive(Clone, Copy, Debug, Default, PartialEq, Eq)]
pub struct Props {
    pub c01: bool,
    pub c02: bool,
    pub c03: bool,
    pub c04: bool,
    pub model: bool, // C06..C10 by cache kind
    pub c12: bool,
    pub c13: bool,
    pub c14: bool,
    pub c15: bool,
    /// treat a library panic as a violation of the property named here (C05 totality)
    pub c05: bool,
}

impl Props {
    pub fn parse(s: &str) -> Props {
        let mut p = Props::default();
        for t in s.split(',') {
            match t.trim() {
                "C01" => p.c01 = true,
                "C02" => p.c02 = true,
                "C03" => p.c03 = true,
                "C04" => p.c04 = true,
                "C05" => p.c05 = true,
                "C06" | "C07" | "C08" | "C09" | "C10" | "MODEL" => p.model = true,
                "C12" => p.c12 = true,
                "C13" => p.c13 = true,
                "C14" => p.c14 = true,
                "C15" => p.c15 = true,
                _ => {}
            }
        }
        p
    }
    pub fn needs_probes(&self) -> bool {
        self.c01 || self.c02
    }
}

pub fn model_prop(kind: Kind) -> &'static str {
    match kind {
        Kind::Lru => "C06",
        Kind::Slru => "C07",
        Kind::TwoQ => "C08",
        Kind::Arc => "C09",
        Kind::Wtlfu => "C10",
    }
}

#[derive(Default, Clone)]
pub struct Cov {
    pub ops: Counts,
    pub outcomes: Counts,
    pub triples: BTreeSet<String>,
    pub states: HashSet<u64>,
    pub histories: u64,
    pub steps: u64,
    pub monitored: u64,
    pub aborted_by_panic: u64,
    pub resync_loose: u64,
    pub multi_outcome: u64,
    pub transitions: u64,
    pub must: Counts,
    pub samples: Vec<String>,
}

impl Cov {
    pub fn merge(&mut self, o: &Cov) {
        self.ops.merge(&o.ops);
        self.outcomes.merge(&o.outcomes);
        self.triples.extend(o.triples.iter().cloned());
        self.states.extend(o.states.iter().copied());
        self.histories += o.histories;
        self.steps += o.steps;
        self.monitored += o.monitored;
        self.aborted_by_panic += o.aborted_by_panic;
        self.resync_loose += o.resync_loose;
        self.multi_outcome += o.multi_outcome;
        self.transitions += o.transitions;
        self.must.merge(&o.must);
        for s in &o.samples {
            if self.samples.len() < 6 {
                self.samples.push(s.clone());
            }
        }
    }
    pub fn nontrivial_triples(&self) -> usize {
        self.triples.iter().filter(|t| !t.starts_with("empty|")).count()
    }
}

#[derive(Clone, Debug)]
pub struct RunOpts {
    pub props: Props,
    pub universe: Vec<u32>,
    /// run the monitors only from this step on (the prefix was judged by an earlier run)
    pub check_from: usize,
    /// use the audit variant that also looks every key up through the index
    pub lookup_audit: bool,
    /// sketch seeds installed into the W-TinyLFU estimator (reproducible replays)
    pub seeds: [u64; 4],
    /// stop at the first violation
    pub stop_on_violation: bool,
    pub record_sample: bool,
    /// before this step the cache is replaced by its clone and the original is dropped
    /// (C01/C03/C04 quantify over histories that contain clone)
    pub clone_swap_at: Option<usize>,
}

impl RunOpts {
    pub fn new(props: Props, universe: Vec<u32>) -> RunOpts {
        RunOpts {
            props,
            universe,
            check_from: 0,
            lookup_audit: false,
            seeds: [0x1234_5678_9abc_def1, 0x0fed_cba9_8765_4321, 0x5555_aaaa_5555_aaaa, 0x0123_4567_89ab_cdef],
            stop_on_violation: true,
            record_sample: false,
            clone_swap_at: None,
        }
    }
}

pub struct RunOut {
    pub violations: Vec<Violation>,
    pub steps_done: usize,
    pub build_err: Option<String>,
    pub final_hash: Option<u64>,
    pub panicked: bool,
    pub trace: Vec<String>,
}

struct EstFrom<'a> {
    universe: &'a [u32],
    ests: &'a [u64],
}
impl<'a> EstOracle for EstFrom<'a> {
    fn estimate(&self, k: u32) -> u64 {
        match self.universe.iter().position(|u| *u == k) {
            Some(i) => self.ests[i],
            None => 0,
        }
    }
}

fn strip_lines(s: &str) -> String {
    // "msg @ file:line" -> "msg @ file"
    match s.rfind(':') {
        Some(i) if s[i + 1..].chars().all(|c| c.is_ascii_digit()) && i + 1 < s.len() => {
            s[..i].to_string()
        }
        _ => s.to_string(),
    }
}

/// policy-relevant abstraction of the pre-state for coverage accounting
pub fn pre_class(kind: Kind, pre: &Snapshot, op: &Op, bounds: &[usize]) -> String {
    let names = kind.list_names();
    let mut s = String::new();
    if pre.total_items() == 0 {
        s.push_str("empty|");
    }
    if let Some(k) = op.key() {
        match pre.find(k) {
            Some((li, p)) => {
                s.push_str("in:");
                s.push_str(names[li]);
                if p + 1 == pre.lists[li].len() {
                    s.push_str("@lru");
                }
            }
            None => s.push_str("absent"),
        }
    }
    s.push_str("|full:");
    for (i, l) in pre.lists.iter().enumerate() {
        let b = bounds.get(i).copied().unwrap_or(usize::MAX);
        s.push(if l.is_empty() {
            'e'
        } else if l.len() >= b {
            'F'
        } else if l.len() + 1 == b {
            'f'
        } else {
            '-'
        });
    }
    let res: usize = pre.lists[..kind.resident_lists()].iter().map(|l| l.len()).sum();
    match kind {
        Kind::TwoQ => {
            let q = pre.p; // quota is reported through p for 2Q
            let r = pre.lists[0].len();
            s.push_str(if r < q { "|r<q" } else if r == q { "|r=q" } else { "|r>q" });
            s.push_str(if res >= bounds[0] { "|FULL" } else { "|room" });
        }
        Kind::Arc => {
            let r = pre.lists[0].len();
            s.push_str(if r < pre.p { "|t1<p" } else if r == pre.p { "|t1=p" } else { "|t1>p" });
            s.push_str(if pre.p == 0 { "|p0" } else if pre.p >= bounds[0] { "|pmax" } else { "|pmid" });
            s.push_str(if res >= bounds[0] { "|FULL" } else { "|room" });
            let (b1, b2) = (pre.lists[2].len(), pre.lists[3].len());
            s.push_str(if b1 < b2 { "|b1<b2" } else if b1 == b2 { "|b1=b2" } else { "|b1>b2" });
        }
        _ => {}
    }
    s
}

fn res_matches(exp: &Res, got: &Res) -> bool {
    match (exp, got) {
        (Res::Iter(_), Res::Iter(_)) => true,
        (Res::Text(_), Res::Text(_)) => true,
        _ => exp == got,
    }
}

fn is_subseq(small: &[(u32, u64)], big: &[(u32, u64)]) -> bool {
    let mut j = 0;
    for x in small {
        while j < big.len() && big[j] != *x {
            j += 1;
        }
        if j == big.len() {
            return false;
        }
        j += 1;
    }
    true
}

/// does the observed post-state realise this outcome?
fn state_matches(kind: Kind, o: &Outcome, post: &Snapshot) -> Result<(), String> {
    let nres = kind.resident_lists();
    for (i, exp) in o.st.lists.iter().enumerate() {
        let got = post.kv(i);
        let ghost = i >= nres;
        if ghost && o.ghost_loose {
            if !is_subseq(&got, exp) {
                return Err(format!(
                    "list '{}': observed {:?} is not the expected {:?} with entries deleted",
                    kind.list_names()[i],
                    got,
                    exp
                ));
            }
        } else if &got != exp {
            return Err(format!(
                "list '{}': expected {:?}, observed {:?}",
                kind.list_names()[i],
                exp,
                got
            ));
        }
    }
    for (li, k) in &o.ghost_must_front {
        // the entry just evicted is remembered at the most-recent end of its ghost list; the
        // only admissible alternative is that "keep the ghost buffers trim" discarded it again,
        // which removes from the least-recent end and therefore empties that ghost list
        if post.lists[*li].first().map(|i| i.k) != Some(*k) && !(o.trim_may_empty && post.lists[*li].is_empty()) {
            return Err(format!(
                "the entry just evicted ({}) is not at the most-recent end of '{}'",
                k,
                kind.list_names()[*li]
            ));
        }
    }
    for k in &o.ghost_must_not {
        for li in nres..post.lists.len() {
            if post.lists[li].iter().any(|i| i.k == *k) {
                return Err(format!("revived key {} still in ghost list '{}'", k, kind.list_names()[li]));
            }
        }
    }
    if kind == Kind::Arc {
        if o.p_loose {
            if post.p > post.caps[0] {
                return Err(format!("p={} exceeds size {}", post.p, post.caps[0]));
            }
        } else if post.p != o.st.p {
            return Err(format!("adaptation target p: expected {}, observed {}", o.st.p, post.p));
        }
    }
    if kind == Kind::Lru && post.caps[0] != o.st.cap {
        return Err(format!("capacity: expected {}, observed {}", o.st.cap, post.caps[0]));
    }
    Ok(())
}

fn retained(s: &Snapshot) -> BTreeMap<u32, u64> {
    let mut m = BTreeMap::new();
    for l in &s.lists {
        for i in l {
            m.insert(i.k, i.vid);
        }
    }
    m
}

/// C12: is the PutResult truthful about pre -> post?
fn check_putresult(
    kind: Kind,
    k: u32,
    nv: u64,
    pr: &PR,
    pre: &Snapshot,
    post: &Snapshot,
) -> Result<(), String> {
    let nres = kind.resident_lists();
    let pre_r = retained(pre);
    let post_r = retained(post);
    let was = pre_r.get(&k).copied();
    let mut gone: BTreeSet<u32> = pre_r.keys().filter(|x| !post_r.contains_key(x) && **x != k).copied().collect();
    let pre_ghost: BTreeSet<u32> = pre.lists[nres..].iter().flatten().map(|i| i.k).collect();
    if kind == Kind::Arc {
        // ARC may discard ghost entries silently. That includes the entry this very put
        // demoted to a ghost list to make room (at most one, and only when the cache was
        // full), if ghost trimming discards it again right away.
        gone.retain(|g| !pre_ghost.contains(g));
        let resident_before: usize = pre.lists[..nres].iter().map(|l| l.len()).sum();
        if resident_before >= pre.caps[0] && gone.len() == 1 {
            let g = *gone.iter().next().unwrap();
            let reported_it = matches!(pr, PR::Evicted(e, _) | PR::EvictedAndUpdate(e, _, _) if *e == g);
            if !reported_it {
                gone.clear();
            }
        }
    }
    // bounce of a capacity-0 cache
    if let PR::Evicted(e, v) = pr {
        if *e == k && *v == nv && was.is_none() {
            if pre_r == post_r {
                return Ok(());
            }
            return Err(format!("pair handed straight back as Evicted but the retained set changed: {:?} -> {:?}", pre_r, post_r));
        }
    }
    let reported: Option<(u32, u64)> = match pr {
        PR::Put => {
            if was.is_some() {
                return Err(format!("Put returned but key {} was already retained (value v{})", k, was.unwrap()));
            }
            None
        }
        PR::Update(o) => {
            match was {
                None => return Err(format!("Update(v{}) returned but key {} was not retained", o, k)),
                Some(w) if w != *o => {
                    return Err(format!("Update(v{}) returned but the previously stored value was v{}", o, w))
                }
                _ => {}
            }
            None
        }
        PR::Evicted(e, v) => {
            if was.is_some() {
                return Err(format!("Evicted returned but key {} was already retained", k));
            }
            Some((*e, *v))
        }
        PR::EvictedAndUpdate(e, v, o) => {
            match was {
                None => return Err(format!("EvictedAndUpdate returned but key {} was not retained", k)),
                Some(w) if w != *o => {
                    return Err(format!("EvictedAndUpdate update=v{} but the previously stored value was v{}", o, w))
                }
                _ => {}
            }
            Some((*e, *v))
        }
    };
    match reported {
        None => {
            if !gone.is_empty() {
                return Err(format!("{} returned but entries {:?} left the cache unreported", pr.variant(), gone));
            }
        }
        Some((e, v)) => {
            match pre_r.get(&e) {
                None => return Err(format!("reported evicted key {} was not retained before the put", e)),
                Some(pv) if *pv != v => {
                    return Err(format!("reported evicted entry ({},v{}) but the stored value was v{}", e, v, pv))
                }
                _ => {}
            }
            if post_r.contains_key(&e) {
                return Err(format!("reported evicted key {} is still retained", e));
            }
            let mut g = gone.clone();
            g.remove(&e);
            if !g.is_empty() {
                return Err(format!("entries {:?} left the cache unreported (reported: {})", g, e));
            }
        }
    }
    // k resident with the new value
    let resident_val = post.lists[..nres].iter().flatten().find(|i| i.k == k).map(|i| i.vid);
    if resident_val != Some(nv) {
        return Err(format!("after put({}, v{}) the key is resident with {:?}", k, nv, resident_val));
    }
    // nothing else changed: every other retained entry keeps its value, nothing new appears
    for (kk, vv) in &post_r {
        if *kk == k {
            continue;
        }
        match pre_r.get(kk) {
            None => return Err(format!("key {} appeared in the cache during put({})", kk, k)),
            Some(pv) if pv != vv => {
                return Err(format!("value of key {} changed from v{} to v{} during put({})", kk, pv, vv, k))
            }
            _ => {}
        }
    }
    Ok(())
}

fn check_iter(pre: &Snapshot, post: &Snapshot, spec: &IterSpec, tr: &IterTrace, nv: u64) -> Result<(), String> {
    let li = spec.list as usize;
    let list: L = pre.kv(li);
    let ex = iter_expect(&list, spec);
    if tr.initial_len != list.len() {
        return Err(format!("len() of a fresh iterator is {}, list has {} entries", tr.initial_len, list.len()));
    }
    if tr.initial_hint != (list.len(), Some(list.len())) {
        return Err(format!("size_hint of a fresh iterator is {:?}, list has {} entries", tr.initial_hint, list.len()));
    }
    let mut w = 0u64;
    for (i, st) in tr.steps.iter().enumerate() {
        let exp = ex.items[i];
        let got = st.item.map(|(k, v, _)| (k, v));
        let expp = exp.map(|(k, v)| {
            (
                if spec.fam.has_keys() { Some(k) } else { None },
                if spec.fam.has_vals() { Some(v) } else { None },
            )
        });
        if got != expp {
            return Err(format!(
                "step {} ({}): expected {:?}, yielded {:?}",
                i,
                if st.back { "next_back" } else { "next" },
                expp,
                got
            ));
        }
        if st.len != ex.lens[i] || st.hint_lo != ex.lens[i] || st.hint_hi != Some(ex.lens[i]) {
            return Err(format!(
                "after step {}: len()={} size_hint=({},{:?}), {} entries remain",
                i, st.len, st.hint_lo, st.hint_hi, ex.lens[i]
            ));
        }
        if let Some((_, _, wr)) = st.item {
            if spec.write && spec.fam.mutable() {
                if wr != Some(nv + w) {
                    return Err("harness write bookkeeping mismatch".to_string());
                }
                w += 1;
            }
        }
    }
    if tr.final_count != ex.final_count {
        return Err(format!("count() of the remainder is {}, {} entries remain", tr.final_count, ex.final_count));
    }
    if !tr.fused_ok {
        return Err("an exhausted iterator yielded an item or a non-zero size_hint".to_string());
    }
    {
        let proj = |e: &(u32, u64)| (if spec.fam.has_keys() { Some(e.0) } else { None }, if spec.fam.has_vals() { Some(e.1) } else { None });
        let rest = &ex.rest;
        let (name, exp_item, exp_n): (&str, Option<(Option<u32>, Option<u64>)>, Option<usize>) = match spec.fin {
            1 => ("last()", rest.last().map(proj), None),
            2 => ("nth(1)", rest.get(1).map(proj), Some(rest.len().saturating_sub(2))),
            3 => ("nth_back(1)", if rest.len() >= 2 { rest.get(rest.len() - 2).map(proj) } else { None }, Some(rest.len().saturating_sub(2))),
            4 => ("rev().next()", rest.last().map(proj), None),
            5 => ("a for loop over the remainder", rest.last().map(proj), Some(rest.len())),
            6 => ("rfold over the remainder", rest.first().map(proj), Some(rest.len())),
            7 => ("step_by(2) over the remainder", if rest.is_empty() { None } else { rest.get((rest.len() - 1) / 2 * 2).map(proj) }, Some((rest.len() + 1) / 2)),
            8 => ("skip(1).next() then count()", rest.get(1).map(proj), Some(rest.len().saturating_sub(2))),
            _ => ("", None, None),
        };
        if spec.fin != 0 {
            if tr.fin_item != exp_item {
                return Err(format!("{} on the remaining {:?} returned {:?}, expected {:?}", name, rest, tr.fin_item, exp_item));
            }
            if let Some(n) = exp_n {
                if tr.fin_n != n {
                    return Err(format!("{}: {} items afterwards / visited, expected {}", name, tr.fin_n, n));
                }
            }
        }
    }
    if let Some(exp_rest) = &ex.clone_rest {
        let exp_rest: Vec<(Option<u32>, Option<u64>)> = exp_rest
            .iter()
            .map(|(k, v)| {
                (
                    if spec.fam.has_keys() { Some(*k) } else { None },
                    if spec.fam.has_vals() { Some(*v) } else { None },
                )
            })
            .collect();
        match &tr.clone_rest {
            None => return Err("iterator clone was not taken".to_string()),
            Some(got) if *got != exp_rest => {
                return Err(format!("clone taken after {} steps drained {:?}, expected {:?}", spec.clone_at, got, exp_rest))
            }
            _ => {}
        }
    }
    // writes visible afterwards, order unchanged
    let mut exp_post = list.clone();
    if spec.write && spec.fam.mutable() {
        let mut w = 0u64;
        for p in ex.positions.iter().flatten() {
            exp_post[*p].1 = nv + w;
            w += 1;
        }
    }
    if post.kv(li) != exp_post {
        return Err(format!("list after iteration: expected {:?}, observed {:?}", exp_post, post.kv(li)));
    }
    Ok(())
}

/// C01 through the public API only (used when the structural audit fails, so that no hooked
/// snapshot exists): iterators must not show a key twice and must agree with len()
fn public_c01(sub: &mut Box<dyn DynSubject>, kind: Kind) -> Option<String> {
    let keys = sub.public_keys()?;
    let nres = kind.resident_lists();
    let mut seen = HashSet::new();
    for l in &keys {
        for k in l {
            if !seen.insert(*k) {
                return Some(format!("the public iterators show key {} more than once: {:?}", k, keys));
            }
        }
    }
    let resident: usize = keys[..nres].iter().map(|l| l.len()).sum();
    if let Res::Num(n) = sub.exec(&Op::Len, 0) {
        if n as usize != resident && resident < 64 {
            return Some(format!("len() = {} but the public iterators of the resident lists yield {} entries", n, resident));
        }
    }
    None
}

/// C02 through the public API only: every (key, value) an entry iterator or a list-end accessor
/// shows for a resident entry must be the value `peek` returns for that key
fn public_c02(sub: &mut Box<dyn DynSubject>, kind: Kind) -> Option<String> {
    let items = sub.public_items()?;
    let nres = kind.resident_lists();
    for (li, l) in items.iter().enumerate().take(nres) {
        for (k, v) in l {
            match sub.exec(&Op::Peek(*k, false), 0) {
                Res::Val(Some(pv)) if pv == *v => {}
                other => {
                    return Some(format!("the iterator of '{}' shows key {} with value v{}, but peek({}) returns {}", kind.list_names()[li], k, v, k, other));
                }
            }
        }
    }
    if kind == Kind::Lru {
        for op in [Op::PeekLru, Op::PeekMru] {
            if let Res::KV(Some((k, v))) = sub.exec(&op, 0) {
                match sub.exec(&Op::Peek(k, false), 0) {
                    Res::Val(Some(pv)) if pv == v => {}
                    other => return Some(format!("{} shows ({}, v{}) but peek({}) returns {}", op, k, v, k, other)),
                }
            }
        }
    }
    None
}

/// Run one history on a freshly built real cache. Never panics.
pub fn run_history(cfg: &Cfg, kt: KeyType, ops: &[Op], opts: &RunOpts, cov: &mut Cov) -> RunOut {
    let props = opts.props;
    let kind = cfg.kind;
    let mut out = RunOut {
        violations: vec![],
        steps_done: 0,
        build_err: None,
        final_hash: None,
        panicked: false,
        trace: vec![],
    };
    reg_reset();
    cb_take();
    #[cfg(feature = "talloc")]
    let alloc0 = crate::talloc::stats();
    let mut sub = match make_subject(cfg, kt) {
        Ok(s) => s,
        Err(e) => {
            out.build_err = Some(e);
            return out;
        }
    };
    sub.reseed(opts.seeds);
    cov.histories += 1;
    let mut model = Model::new(cfg);
    let mprop = model_prop(kind);
    let mut pre = match sub.snapshot(opts.lookup_audit) {
        Ok(s) => s,
        Err(e) => {
            out.violations.push(Violation {
                prop: "C03".into(),
                rule: "audit".into(),
                sig: format!("C03|{}|audit|new", kind.name()),
                detail: format!("fresh cache ({}) fails the structural audit: {}", cfg.describe(), e),
                step: 0,
            });
            if props.c01 {
                if let Some(d) = public_c01(&mut sub, kind) {
                    out.violations.push(Violation { prop: "C01".into(), rule: "public-view".into(), sig: format!("C01|{}|public-view|new", kind.name()), detail: format!("fresh cache ({}): {}", cfg.describe(), d), step: 0 });
                }
            }
            if props.c02 {
                if let Some(d) = public_c02(&mut sub, kind) {
                    out.violations.push(Violation { prop: "C02".into(), rule: "public-view".into(), sig: format!("C02|{}|public-view|new", kind.name()), detail: format!("fresh cache ({}): {}", cfg.describe(), d), step: 0 });
                }
            }
            return out;
        }
    };
    // the cache may start non-empty (built by a conversion): start the model from what is there
    model.st.lists = (0..pre.lists.len()).map(|li| pre.kv(li)).collect();
    model.st.p = pre.p;
    if kind == Kind::Lru {
        model.st.cap = pre.caps[0];
    }
    // C02 shadow store
    let mut shadow: HashMap<u32, u64> = HashMap::new();
    for l in &pre.lists {
        for it in l {
            shadow.insert(it.k, it.vid);
        }
    }
    let mut last_probes: Option<Probes> = if props.needs_probes() {
        sub.probes(&opts.universe).ok()
    } else {
        None
    };
    let uni = &opts.universe;
    let tracked = kt == KeyType::Tracked;

    macro_rules! viol {
        ($prop:expr, $rule:expr, $i:expr, $op:expr, $pc:expr, $($arg:tt)*) => {{
            let detail = format!($($arg)*);
            out.violations.push(Violation {
                prop: $prop.to_string(),
                rule: $rule.to_string(),
                sig: format!("{}|{}|{}|{}|{}", $prop, kind.name(), $rule, $op.name(), $pc),
                detail,
                step: $i,
            });
        }};
    }

    'ops: for (i, op) in ops.iter().enumerate() {
        let nv = (i as u64 + 1) * 64;
        let checking = i >= opts.check_from;
        if opts.clone_swap_at == Some(i) {
            match sub.clone_box() {
                Ok(Some(c)) => {
                    let old = std::mem::replace(&mut sub, c);
                    #[cfg(feature = "talloc")]
                    crate::talloc::in_lib(true);
                    let d = guarded(move || drop(old));
                    #[cfg(feature = "talloc")]
                    crate::talloc::in_lib(false);
                    cb_take();
                    cov.must.bump("clone-swap");
                    if d.is_err() {
                        out.panicked = true;
                        break 'ops;
                    }
                    match sub.snapshot(opts.lookup_audit) {
                        Ok(s) => {
                            model.st.lists = (0..s.lists.len()).map(|li| s.kv(li)).collect();
                            model.st.p = s.p;
                            pre = s;
                        }
                        Err(e) => {
                            if props.c03 {
                                viol!("C03", "audit", i, op, "after-clone", "the clone fails the structural audit: {}", e);
                            }
                            break 'ops;
                        }
                    }
                    if props.needs_probes() {
                        last_probes = sub.probes(uni).ok();
                    }
                }
                Ok(None) => {}
                Err(_) => {
                    out.panicked = true;
                    break 'ops;
                }
            }
        }
        let bounds = model.bounds();
        let pc = pre_class(kind, &pre, op, &bounds);
        let ests = if kind == Kind::Wtlfu { sub.estimates(uni) } else { None };
        let est_after = if kind == Kind::Wtlfu && props.model && checking {
            match op {
                Op::Get(k, _) | Op::GetMut(k, _, _) => sub.est_after_access(*k),
                _ => vec![],
            }
        } else {
            vec![]
        };
        let est_cleared = if kind == Kind::Wtlfu && matches!(op, Op::Purge) { sub.est_cleared() } else { None };

        let res = sub.exec(op, nv);
        let cb = cb_take();
        out.steps_done = i + 1;
        cov.steps += 1;
        if opts.record_sample {
            out.trace.push(format!("{} -> {}", op, res));
        }
        if let Res::Unsupported = res {
            continue;
        }
        let panicked = matches!(res, Res::Panic(_));
        if panicked {
            out.panicked = true;
            cov.aborted_by_panic += 1;
            let msg = if let Res::Panic(m) = &res { m.clone() } else { String::new() };
            if props.c05 {
                out.violations.push(Violation {
                    prop: "C05".into(),
                    rule: "panic".into(),
                    sig: format!("C05|{}|panic|{}|{}", kind.name(), op.name(), strip_lines(&msg)),
                    detail: format!("{} panicked: {} (state before: {})", op, msg, pre.describe(kind)),
                    step: i,
                });
            }
            if props.model && checking {
                out.violations.push(Violation {
                    prop: mprop.into(),
                    rule: "panic".into(),
                    sig: format!("{}|{}|panic|{}|{}", mprop, kind.name(), op.name(), strip_lines(&msg)),
                    detail: format!(
                        "{} panicked ({}) where the policy prescribes a result; state before: {}",
                        op,
                        msg,
                        pre.describe(kind)
                    ),
                    step: i,
                });
            }
            // the state after a library panic is not specified: end this history
            break 'ops;
        }
        let post = match sub.snapshot(opts.lookup_audit) {
            Ok(s) => s,
            Err(e) => {
                if props.c03 {
                    viol!("C03", "audit", i, op, pc, "after {}: {} (state before: {})", op, e, pre.describe(kind));
                }
                if props.c01 {
                    if let Some(d) = public_c01(&mut sub, kind) {
                        viol!("C01", "public-view", i, op, pc, "after {}: {} (state before: {})", op, d, pre.describe(kind));
                    }
                }
                if props.c02 {
                    if let Some(d) = public_c02(&mut sub, kind) {
                        viol!("C02", "public-view", i, op, pc, "after {}: {} (state before: {})", op, d, pre.describe(kind));
                    }
                }
                break 'ops;
            }
        };
        let probes = if props.needs_probes() {
            match sub.probes(uni) {
                Ok(p) => Some(p),
                Err(e) => {
                    if props.c05 {
                        viol!("C05", "panic", i, op, pc, "read-only probe panicked after {}: {}", op, e);
                    }
                    out.panicked = true;
                    break 'ops;
                }
            }
        } else {
            None
        };

        // ---------------- coverage
        cov.ops.bump(op.name());
        cov.outcomes.bump(res.class());
        cov.triples.insert(format!("{}|{}|{}|{}", pc, kind.name(), op.name(), res.class()));
        cov.states.insert(post.abstract_hash());
        if checking {
            cov.monitored += 1;
        }

        // ---------------- model conformance (C06..C10), C15
        let oracle = EstFrom {
            universe: uni,
            ests: ests.as_deref().unwrap_or(&[]),
        };
        let outcomes = model.step(op, nv, &oracle);
        if outcomes.len() > 1 {
            cov.multi_outcome += 1;
        }
        if checking && props.model {
            let mut res_ok = false;
            let mut matched = false;
            let mut why = String::new();
            for o in &outcomes {
                if res_matches(&o.res, &res) {
                    res_ok = true;
                    match state_matches(kind, o, &post) {
                        Ok(()) => {
                            matched = true;
                            if o.ghost_loose || o.p_loose {
                                cov.resync_loose += 1;
                            }
                            break;
                        }
                        Err(e) => why = e,
                    }
                }
            }
            if !matched {
                if !res_ok {
                    let exp: Vec<String> = outcomes.iter().map(|o| o.res.to_string()).collect();
                    viol!(mprop, "result", i, op, pc, "{} returned {}, the policy prescribes {} (state before: {})", op, res, exp.join(" or "), pre.describe(kind));
                } else {
                    viol!(mprop, "state", i, op, pc, "after {} -> {}: {} (state before: {}; after: {})", op, res, why, pre.describe(kind), post.describe(kind));
                }
            }
            if kind == Kind::Wtlfu {
                match op {
                    Op::Get(k, _) | Op::GetMut(k, _, _) => {
                        if let Some(pe) = &post.est {
                            if !est_after.iter().any(|d| d == pe) {
                                viol!("C10", "estimator-access", i, op, pc, "{} did not record exactly one access for key {} in the estimator (w before {}, after {})", op, k, pre.est.as_ref().map(|e| e.w).unwrap_or(0), pe.w);
                            }
                        }
                    }
                    Op::Purge => {
                        if post.est != est_cleared {
                            viol!("C10", "estimator-purge", i, op, pc, "purge did not clear the frequency estimator");
                        }
                        if let Some(es) = sub.estimates(uni) {
                            if es.iter().any(|e| *e != 0) {
                                viol!("C10", "estimator-purge", i, op, pc, "after purge some key still has a non-zero frequency estimate: {:?}", es);
                            }
                        }
                    }
                    _ => {}
                }
            }
        }
        if checking && props.c15 && kind == Kind::Lru {
            if !outcomes.iter().any(|o| o.cb == cb) {
                let exp: Vec<String> = outcomes.iter().map(|o| format!("{:?}", o.cb)).collect();
                viol!("C15", "callback-log", i, op, pc, "eviction callback saw {:?} during {}, expected {} (state before: {})", cb, op, exp.join(" or "), pre.describe(kind));
            }
        }

        // ---------------- C12
        if checking && props.c12 {
            let pr_k: Option<(&PR, u32)> = match (&res, op) {
                (Res::Put(pr), Op::Put(k)) | (Res::Put(pr), Op::PutProtected(k)) => Some((pr, *k)),
                (Res::OrPut(_, false, Some(pr)), Op::PeekOrPut(k))
                | (Res::OrPut(_, false, Some(pr)), Op::PeekMutOrPut(k, _))
                | (Res::OrPut(_, false, Some(pr)), Op::ContainsOrPut(k)) => Some((pr, *k)),
                _ => None,
            };
            if let Some((pr, k)) = pr_k {
                if let Err(e) = check_putresult(kind, k, nv, pr, &pre, &post) {
                    viol!("C12", format!("putresult-{}", pr.variant()), i, op, pc, "{} -> {}: {} (state before: {}; after: {})", op, res, e, pre.describe(kind), post.describe(kind));
                }
            }
            if let (Res::OrPut(_, found, pr), Some(k)) = (&res, op.key()) {
                let was_res = pre.lists[..kind.resident_lists()].iter().flatten().any(|it| it.k == k);
                if *found != was_res || (*found && pr.is_some()) || (!*found && pr.is_none()) {
                    viol!("C12", "orput-found", i, op, pc, "{} -> {}: found flag / put result inconsistent with residency {} before", op, res, was_res);
                }
                if *found && !pre.same(&post, true) && !matches!(op, Op::PeekMutOrPut(_, true)) {
                    viol!("C12", "orput-found", i, op, pc, "{} found the key but changed the cache", op);
                }
            }
        }

        // ---------------- C13 (state part)
        if checking && props.c13 && op.read_only() && !pre.same(&post, true) {
            viol!("C13", "state-changed", i, op, pc, "read-only {} changed the state: before {}; after {}{}", op, pre.describe(kind), post.describe(kind), if pre.est != post.est { " (estimator changed)" } else { "" });
        }

        // ---------------- C14
        if checking && props.c14 {
            if let (Op::Iter(spec), Res::Iter(tr)) = (op, &res) {
                cov.must.bump(&format!("iter:{}:len{}", spec.fam.name(), pre.lists[spec.list as usize].len().min(5)));
                if let Err(e) = check_iter(&pre, &post, spec, tr, nv) {
                    viol!("C14", format!("iter-{}", spec.fam.name()), i, op, format!("len{}", pre.lists[spec.list as usize].len().min(5)), "{} on '{}' {:?}: {}", op, kind.list_names()[spec.list as usize], pre.kv(spec.list as usize), e);
                }
            }
        }

        // ---------------- C01
        if checking && props.c01 {
            let pr = probes.as_ref().unwrap();
            let nres = kind.resident_lists();
            let resident: usize = post.lists[..nres].iter().map(|l| l.len()).sum();
            let exp_cap = if kind == Kind::Lru { post.caps[0] } else { cfg.total() };
            if pr.cap != exp_cap {
                viol!("C01", "cap", i, op, pc, "cap() = {}, configured capacity {}", pr.cap, exp_cap);
            }
            if resident > pr.cap {
                viol!("C01", "over-capacity", i, op, pc, "{} resident entries exceed cap() = {} after {} ({})", resident, pr.cap, op, post.describe(kind));
            }
            let b2 = {
                let mut m = model.clone();
                m.st.cap = post.caps[0];
                m.bounds()
            };
            for (li, l) in post.lists.iter().enumerate() {
                if l.len() > b2[li] {
                    viol!("C01", format!("bound-{}", kind.list_names()[li]), i, op, pc, "partition '{}' holds {} entries, bound {} after {} ({})", kind.list_names()[li], l.len(), b2[li], op, post.describe(kind));
                }
            }
            if matches!(kind, Kind::TwoQ | Kind::Arc) && resident > cfg.a {
                viol!("C01", "bound-resident", i, op, pc, "recent+frequent = {} exceeds size {}", resident, cfg.a);
            }
            let mut seen = HashSet::new();
            for l in &post.lists {
                for it in l {
                    if !seen.insert(it.k) {
                        viol!("C01", "duplicate-key", i, op, pc, "key {} is held in more than one place after {} ({})", it.k, op, post.describe(kind));
                    }
                }
            }
            let ncontains = pr.contains.iter().filter(|c| c.0).count();
            if pr.len != ncontains {
                viol!("C01", "len-vs-contains", i, op, pc, "len() = {} but contains() is true for {} distinct keys after {} ({})", pr.len, ncontains, op, post.describe(kind));
            }
            if pr.len != resident {
                viol!("C01", "len-vs-lists", i, op, pc, "len() = {} but the resident lists hold {} entries after {} ({})", pr.len, resident, op, post.describe(kind));
            }
            for (ui, k) in uni.iter().enumerate() {
                let in_res = post.lists[..nres].iter().flatten().any(|it| it.k == *k);
                if pr.contains[ui].0 != in_res {
                    viol!("C01", "contains-vs-lists", i, op, pc, "contains({}) = {} but the key is {} in the resident lists ({})", k, pr.contains[ui].0, if in_res { "present" } else { "absent" }, post.describe(kind));
                }
            }
            let empty = post.lists.iter().all(|l| l.is_empty());
            if pr.is_empty != empty {
                viol!("C01", "is_empty", i, op, pc, "is_empty() = {} but {} ({})", pr.is_empty, if empty { "nothing is retained" } else { "entries are retained" }, post.describe(kind));
            }
            let exp_lens: Vec<u64> = match kind {
                Kind::Wtlfu => vec![post.lists[0].len() as u64, (post.lists[1].len() + post.lists[2].len()) as u64],
                _ => post.lists.iter().map(|l| l.len() as u64).collect(),
            };
            if pr.seg_lens != exp_lens {
                viol!("C01", "segment-lens", i, op, pc, "per-segment length accessors {:?} disagree with the lists {:?}", pr.seg_lens, exp_lens);
            }
            for (li, l) in post.lists.iter().enumerate() {
                if l.len() == b2[li] {
                    cov.must.bump(&format!("{}:{}:at-bound", kind.name(), kind.list_names()[li]));
                }
            }
            if i % 7 == 0 {
                if let Some(pk) = sub.public_keys() {
                    for (li, l) in post.lists.iter().enumerate() {
                        let hk: Vec<u32> = l.iter().map(|it| it.k).collect();
                        if l.len() < 64 && pk[li] != hk {
                            viol!("C01", "public-view", i, op, pc, "the public key iterator of '{}' yields {:?} but the list holds {:?}", kind.list_names()[li], pk[li], hk);
                        }
                    }
                }
            }
        }

        // ---------------- C02
        if props.c02 {
            let lp = last_probes.as_ref();
            let idx = |k: u32| uni.iter().position(|u| *u == k);
            let mut returned: Vec<(u32, u64, &'static str)> = vec![];
            // agreement of mutating lookups with the read-only view taken before the op
            if let (Some(lp), Some(k)) = (lp, op.key()) {
                if let Some(ui) = idx(k) {
                    let was = lp.contains[ui].0;
                    let seen_val = lp.peek[ui].0;
                    match (&res, op) {
                        (Res::Val(v), Op::Get(..)) | (Res::Val(v), Op::GetMut(..)) | (Res::Val(v), Op::Peek(..)) | (Res::Val(v), Op::PeekMut(..)) => {
                            if checking && v.is_some() != was {
                                viol!("C02", "lookups-disagree", i, op, pc, "{} returned {} but contains({}) was {} just before", op, res, k, was);
                            }
                            if checking && v.is_some() && *v != seen_val {
                                viol!("C02", "lookups-disagree", i, op, pc, "{} returned {} but peek returned {:?} just before", op, res, seen_val);
                            }
                        }
                        (Res::Bool(b), Op::Contains(..)) => {
                            if checking && *b != was {
                                viol!("C02", "lookups-disagree", i, op, pc, "{} returned {} but the other borrowed form said {}", op, b, was);
                            }
                        }
                        (Res::OrPut(f, found, _), _) => {
                            if checking && *found != was {
                                viol!("C02", "lookups-disagree", i, op, pc, "{} found={} but contains({}) was {} just before", op, found, k, was);
                            }
                            if let (true, Some(v)) = (checking, f) {
                                if Some(*v) != seen_val {
                                    viol!("C02", "lookups-disagree", i, op, pc, "{} returned v{} but peek returned {:?} just before", op, v, seen_val);
                                }
                            }
                        }
                        _ => {}
                    }
                }
            }
            // client-side events -> shadow store
            match (&res, op) {
                (Res::Val(Some(v)), Op::Get(k, _)) | (Res::Val(Some(v)), Op::Peek(k, _)) => returned.push((*k, *v, "lookup")),
                (Res::Val(Some(v)), Op::GetMut(k, _, _)) | (Res::Val(Some(v)), Op::PeekMut(k, _, _)) => {
                    returned.push((*k, *v, "lookup"));
                }
                (Res::Val(v), Op::Remove(k, _)) => {
                    if let Some(v) = v {
                        returned.push((*k, *v, "remove"));
                    }
                    // checked below, then released
                }
                (Res::KV(Some((k, v))), _) => {
                    returned.push((*k, *v, "lru/mru accessor"));
                }
                (Res::OrPut(Some(v), true, _), _) => returned.push((op.key().unwrap(), *v, "or_put")),
                _ => {}
            }
            let put_like: Option<(&PR, u32)> = match (&res, op) {
                (Res::Put(pr), _) => op.key().map(|k| (pr, k)),
                (Res::OrPut(_, false, Some(pr)), _) => op.key().map(|k| (pr, k)),
                _ => None,
            };
            if let Some((pr, k)) = put_like {
                match pr {
                    PR::Update(o) => returned.push((k, *o, "Update")),
                    PR::EvictedAndUpdate(e, v, o) => {
                        returned.push((k, *o, "EvictedAndUpdate.update"));
                        if *e != k {
                            returned.push((*e, *v, "EvictedAndUpdate.evicted"));
                        }
                    }
                    PR::Evicted(e, v) => {
                        if !(*e == k && *v == nv) {
                            returned.push((*e, *v, "Evicted"));
                        }
                    }
                    PR::Put => {}
                }
            }
            for (k, v, what) in &returned {
                if !checking {
                    continue;
                }
                match shadow.get(k) {
                    None => viol!("C02", "value-for-released-key", i, op, pc, "{} handed back v{} for key {} ({}), which was never put or was released and not put again", op, v, k, what),
                    Some(sv) if sv != v => viol!("C02", "stale-value", i, op, pc, "{} handed back v{} for key {} ({}), but the value most recently stored is v{}", op, v, k, what, sv),
                    _ => {}
                }
            }
            // releases and stores
            match (&res, op) {
                (Res::Val(Some(_)), Op::Remove(k, _)) => {
                    shadow.remove(k);
                }
                (Res::KV(Some((k, _))), Op::RemoveLru) | (Res::KV(Some((k, _))), Op::RemoveLruFrom(_)) => {
                    shadow.remove(k);
                }
                (Res::KV(Some((k, _))), Op::GetLruMut(true))
                | (Res::KV(Some((k, _))), Op::GetMruMut(true))
                | (Res::KV(Some((k, _))), Op::PeekLruMut(true))
                | (Res::KV(Some((k, _))), Op::PeekMruMut(true))
                | (Res::KV(Some((k, _))), Op::PeekLruMutFrom(_, true))
                | (Res::KV(Some((k, _))), Op::PeekMruMutFrom(_, true)) => {
                    shadow.insert(*k, nv);
                }
                (Res::OrPut(Some(_), true, _), Op::PeekMutOrPut(k, true)) => {
                    shadow.insert(*k, nv + 1);
                }
                (Res::Val(Some(_)), Op::GetMut(k, _, true)) | (Res::Val(Some(_)), Op::PeekMut(k, _, true)) => {
                    shadow.insert(*k, nv);
                }
                (_, Op::Purge) => shadow.clear(),
                (_, Op::Resize(_)) => {
                    for (k, _) in &cb {
                        shadow.remove(k);
                    }
                }
                (Res::Iter(_), Op::Iter(spec)) if spec.write && spec.fam.mutable() => {
                    for it in &post.lists[spec.list as usize] {
                        shadow.insert(it.k, it.vid);
                    }
                }
                _ => {}
            }
            if let Some((pr, k)) = put_like {
                match pr {
                    PR::Evicted(e, v) if *e == k && *v == nv => {}
                    PR::Evicted(e, _) => {
                        shadow.remove(e);
                        shadow.insert(k, nv);
                    }
                    PR::EvictedAndUpdate(e, _, _) => {
                        shadow.remove(e);
                        shadow.insert(k, nv);
                    }
                    _ => {
                        shadow.insert(k, nv);
                    }
                }
            }
            // sweep
            if checking {
                let pr = probes.as_ref().unwrap();
                if let Some(a) = &pr.alias {
                    viol!("C02", "borrowed-forms-disagree", i, op, pc, "{} (after {})", a, op);
                }
                if i % 5 == 0 {
                    if let Some(d) = public_c02(&mut sub, kind) {
                        viol!("C02", "public-view", i, op, pc, "after {}: {}", op, d);
                    }
                }
                for (ui, k) in uni.iter().enumerate() {
                    let (c1, c2) = pr.contains[ui];
                    let (p1, p2) = pr.peek[ui];
                    if c1 != c2 || p1 != p2 {
                        viol!("C02", "borrowed-forms-disagree", i, op, pc, "key {}: contains = {}/{} and peek = {:?}/{:?} through the two borrowed forms of the key", k, c1, c2, p1, p2);
                    }
                    if c1 != p1.is_some() {
                        viol!("C02", "lookups-disagree", i, op, pc, "key {}: contains = {} but peek = {:?} after {}", k, c1, p1, op);
                    }
                    if let Some(v) = p1 {
                        match shadow.get(k) {
                            None => viol!("C02", "resident-after-release", i, op, pc, "key {} is reported resident (v{}) after {}, but it was never put or was released", k, v, op),
                            Some(sv) if *sv != v => viol!("C02", "stale-value", i, op, pc, "peek({}) = v{} after {}, but the value most recently stored is v{}", k, v, op, sv),
                            _ => {}
                        }
                    }
                }
            }
        }

        // ---------------- C04
        if checking && props.c04 && tracked {
            for e in reg_take_errors() {
                viol!("C04", "double-drop", i, op, pc, "{} during/after {}", e, op);
            }
            let mut oids = HashSet::new();
            let mut nitems = 0u64;
            for l in &post.lists {
                for it in l {
                    nitems += 1;
                    if !reg_is_live(it.koid) {
                        viol!("C04", "dropped-while-reachable", i, op, pc, "key object #{} (key {}) was dropped but is still reachable in the cache after {}", it.koid, it.k, op);
                    }
                    if !reg_is_live(it.void) {
                        viol!("C04", "dropped-while-reachable", i, op, pc, "value object #{} (key {}) was dropped but is still reachable in the cache after {}", it.void, it.k, op);
                    }
                    if !oids.insert(it.koid) || !oids.insert(it.void) {
                        viol!("C04", "object-held-twice", i, op, pc, "an object is held twice in the cache after {}", op);
                    }
                }
            }
            let (lk, lv) = reg_live();
            if lk != nitems || lv != nitems {
                viol!("C04", "conservation", i, op, pc, "after {} -> {}: {} keys / {} values are alive but the cache retains {} entries and everything handed back was dropped (leak or premature drop); state: {}", op, res, lk, lv, nitems, post.describe(kind));
            }
            if matches!(op, Op::Purge) && nitems != 0 {
                viol!("C04", "purge-retains", i, op, pc, "purge left {} entries retained", nitems);
            }
        }

        // ---------------- resync and advance
        model.st.lists = (0..post.lists.len()).map(|li| post.kv(li)).collect();
        model.st.p = post.p;
        if kind == Kind::Lru {
            model.st.cap = post.caps[0];
        }
        pre = post;
        last_probes = probes;
        if opts.stop_on_violation && !out.violations.is_empty() {
            break 'ops;
        }
    }
    out.final_hash = Some(pre.abstract_hash());
    // ---------------- drop at this (arbitrary) point
    #[cfg(feature = "talloc")]
    crate::talloc::in_lib(true);
    let dr = guarded(move || drop(sub));
    #[cfg(feature = "talloc")]
    crate::talloc::in_lib(false);
    if let Err(e) = dr {
        if props.c05 {
            out.violations.push(Violation {
                prop: "C05".into(),
                rule: "panic".into(),
                sig: format!("C05|{}|panic|drop|{}", kind.name(), strip_lines(&e)),
                detail: format!("dropping the cache panicked: {}", e),
                step: out.steps_done,
            });
        }
        out.panicked = true;
    }
    if props.c04 && tracked && !out.panicked {
        for e in reg_take_errors() {
            out.violations.push(Violation {
                prop: "C04".into(),
                rule: "double-drop".into(),
                sig: format!("C04|{}|double-drop|drop", kind.name()),
                detail: format!("{} while dropping the cache", e),
                step: out.steps_done,
            });
        }
        let (lk, lv) = reg_live();
        if lk != 0 || lv != 0 {
            out.violations.push(Violation {
                prop: "C04".into(),
                rule: "leak-on-drop".into(),
                sig: format!("C04|{}|leak-on-drop|drop", kind.name()),
                detail: format!("after dropping the cache {} keys and {} values are still alive", lk, lv),
                step: out.steps_done,
            });
        }
        #[cfg(feature = "talloc")]
        {
            let a = crate::talloc::stats();
            if a.lib_live_blocks != alloc0.lib_live_blocks {
                out.violations.push(Violation {
                    prop: "C04".into(),
                    rule: "heap-leak-on-drop".into(),
                    sig: format!("C04|{}|heap-leak-on-drop|drop", kind.name()),
                    detail: format!(
                        "after dropping the cache {} heap blocks ({} bytes) allocated inside library calls are still live",
                        a.lib_live_blocks - alloc0.lib_live_blocks,
                        a.lib_live_bytes - alloc0.lib_live_bytes
                    ),
                    step: out.steps_done,
                });
            }
        }
    }
    #[cfg(feature = "talloc")]
    if props.c03 || props.c04 {
        let a = crate::talloc::stats();
        if a.bad_free != alloc0.bad_free {
            out.violations.push(Violation {
                prop: if props.c03 { "C03".into() } else { "C04".into() },
                rule: "invalid-free".into(),
                sig: format!("{}|{}|invalid-free", if props.c03 { "C03" } else { "C04" }, kind.name()),
                detail: "a block was freed twice or with a wrong layout".into(),
                step: out.steps_done,
            });
        }
        if a.write_after_free != alloc0.write_after_free {
            out.violations.push(Violation {
                prop: "C03".into(),
                rule: "write-after-free".into(),
                sig: format!("C03|{}|write-after-free", kind.name()),
                detail: "poison of a quarantined (freed) block was overwritten".into(),
                step: out.steps_done,
            });
        }
    }
    out
}

/// number of re-executions a shrink may spend (small under Miri / valgrind)
pub static SHRINK_BUDGET: std::sync::atomic::AtomicUsize = std::sync::atomic::AtomicUsize::new(400);

/// Greedy delta-debugging of a failing history: keep removing chunks / single ops while a
/// violation with the same (property, rule) persists.
pub fn shrink(cfg: &Cfg, kt: KeyType, ops: &[Op], opts: &RunOpts, prop: &str, rule: &str) -> Vec<Op> {
    let mut cur: Vec<Op> = ops.to_vec();
    let fails = |cand: &[Op]| -> bool {
        let mut cov = Cov::default();
        let mut o = opts.clone();
        o.check_from = 0;
        o.stop_on_violation = true;
        let out = run_history(cfg, kt, cand, &o, &mut cov);
        out.violations.iter().any(|v| v.prop == prop && v.rule == rule)
    };
    if !fails(&cur) {
        return cur;
    }
    let mut chunk = cur.len() / 2;
    let mut budget = SHRINK_BUDGET.load(std::sync::atomic::Ordering::Relaxed);
    // shrinking only makes the witness shorter; on histories of thousands of steps over
    // thousands of entries it is cut off after a while (the unshrunk history replays as well)
    let t0 = std::time::Instant::now();
    let in_time = move || t0.elapsed().as_secs() < 30;
    while chunk >= 1 && budget > 0 && in_time() {
        let mut i = 0;
        let mut progressed = false;
        while i + chunk <= cur.len() && budget > 0 && in_time() {
            let mut cand = cur.clone();
            cand.drain(i..i + chunk);
            budget -= 1;
            if fails(&cand) {
                cur = cand;
                progressed = true;
            } else {
                i += chunk;
            }
        }
        if !progressed || chunk > 1 {
            chunk /= 2;
        }
        if chunk == 0 {
            break;
        }
        if chunk == 1 && !progressed {
            break;
        }
    }
    cur
}
