//! Counting / poisoning / quarantining global allocator (feature `talloc`; never built into
//! sanitizer variants, where it would hide frees and leaks from the tool).
//!
//! * every block carries a header with a magic word, the requested size and a tag saying
//!   whether it was allocated while the harness was inside a library call;
//! * `poison` mode fills fresh blocks with 0xA5, freed blocks with 0xDE and parks them in a
//!   FIFO quarantine; when a block leaves quarantine its poison is verified (a changed byte
//!   is a write-after-free). A read of a freed node's `next`/`prev`/key pointer yields
//!   0xDEDE… and faults.
use std::alloc::{GlobalAlloc, Layout, System};
use std::sync::atomic::{AtomicBool, AtomicU64, AtomicUsize, Ordering::*};

const MAGIC_LIVE: u64 = 0xA110_C8ED_5AFE_B10C;
const MAGIC_FREE: u64 = 0xDEAD_F4EE_DB10_C000;
const HDR: usize = 32; // magic, size, tag, pad

pub static POISON: AtomicBool = AtomicBool::new(false);
static IN_LIB: AtomicBool = AtomicBool::new(false);
pub static LIVE_BLOCKS: AtomicU64 = AtomicU64::new(0);
pub static LIVE_BYTES: AtomicU64 = AtomicU64::new(0);
pub static LIB_LIVE_BLOCKS: AtomicU64 = AtomicU64::new(0);
pub static LIB_LIVE_BYTES: AtomicU64 = AtomicU64::new(0);
pub static LIB_ALLOCS: AtomicU64 = AtomicU64::new(0);
pub static TOTAL_ALLOCS: AtomicU64 = AtomicU64::new(0);
pub static BAD_FREE: AtomicU64 = AtomicU64::new(0);
pub static WRITE_AFTER_FREE: AtomicU64 = AtomicU64::new(0);
pub static QUARANTINED: AtomicU64 = AtomicU64::new(0);
/// extra bytes added to every allocation (address perturbation for C17)
pub static PAD: AtomicUsize = AtomicUsize::new(0);

const QCAP: usize = 8192;
const QBYTES: usize = 16 << 20;
struct Quarantine {
    ring: [(usize, usize, usize); QCAP], // (base ptr, total size, align)
    head: usize,
    len: usize,
    bytes: usize,
}
static QLOCK: AtomicBool = AtomicBool::new(false);
static mut Q: Quarantine = Quarantine {
    ring: [(0, 0, 0); QCAP],
    head: 0,
    len: 0,
    bytes: 0,
};

pub fn in_lib(on: bool) {
    IN_LIB.store(on, Relaxed);
}

/// set the flag and return its previous value (harness bookkeeping done from inside a
/// library call, e.g. in Drop of a tracked object, must not be tagged as library memory)
pub fn swap_in_lib(on: bool) -> bool {
    IN_LIB.swap(on, Relaxed)
}

pub struct TAlloc;

fn hdr_for(align: usize) -> usize {
    if align > HDR {
        align
    } else {
        HDR
    }
}

unsafe fn release(base: *mut u8, total: usize, align: usize) {
    System.dealloc(base, Layout::from_size_align_unchecked(total, align));
}

unsafe fn check_poison_and_release(base: usize, total: usize, align: usize) {
    let hdr = hdr_for(align);
    let p = base as *const u8;
    let mut bad = false;
    for i in hdr..total {
        if *p.add(i) != 0xDE {
            bad = true;
            break;
        }
    }
    if *(p as *const u64) != MAGIC_FREE {
        bad = true;
    }
    if bad {
        WRITE_AFTER_FREE.fetch_add(1, Relaxed);
    }
    release(base as *mut u8, total, align);
}

unsafe impl GlobalAlloc for TAlloc {
    unsafe fn alloc(&self, layout: Layout) -> *mut u8 {
        let align = layout.align().max(16);
        let hdr = hdr_for(align);
        let pad = PAD.load(Relaxed);
        let total = hdr + layout.size() + pad;
        let base = System.alloc(Layout::from_size_align_unchecked(total, align));
        if base.is_null() {
            return base;
        }
        let lib = IN_LIB.load(Relaxed);
        let h = base as *mut u64;
        *h = MAGIC_LIVE;
        *h.add(1) = layout.size() as u64;
        *h.add(2) = lib as u64;
        *h.add(3) = pad as u64;
        TOTAL_ALLOCS.fetch_add(1, Relaxed);
        LIVE_BLOCKS.fetch_add(1, Relaxed);
        LIVE_BYTES.fetch_add(layout.size() as u64, Relaxed);
        if lib {
            LIB_ALLOCS.fetch_add(1, Relaxed);
            LIB_LIVE_BLOCKS.fetch_add(1, Relaxed);
            LIB_LIVE_BYTES.fetch_add(layout.size() as u64, Relaxed);
        }
        let user = base.add(hdr);
        if POISON.load(Relaxed) {
            std::ptr::write_bytes(user, 0xA5, layout.size());
        }
        user
    }

    unsafe fn alloc_zeroed(&self, layout: Layout) -> *mut u8 {
        let p = self.alloc(layout);
        if !p.is_null() {
            std::ptr::write_bytes(p, 0, layout.size());
        }
        p
    }

    unsafe fn dealloc(&self, ptr: *mut u8, layout: Layout) {
        let align = layout.align().max(16);
        let hdr = hdr_for(align);
        let base = ptr.sub(hdr);
        let h = base as *mut u64;
        if *h != MAGIC_LIVE || *h.add(1) != layout.size() as u64 {
            // double free / invalid free / size mismatch: count it and do not touch the block
            BAD_FREE.fetch_add(1, Relaxed);
            return;
        }
        let lib = *h.add(2) != 0;
        let pad = *h.add(3) as usize;
        let total = hdr + layout.size() + pad;
        LIVE_BLOCKS.fetch_sub(1, Relaxed);
        LIVE_BYTES.fetch_sub(layout.size() as u64, Relaxed);
        if lib {
            LIB_LIVE_BLOCKS.fetch_sub(1, Relaxed);
            LIB_LIVE_BYTES.fetch_sub(layout.size() as u64, Relaxed);
        }
        *h = MAGIC_FREE;
        if !POISON.load(Relaxed) {
            release(base, total, align);
            return;
        }
        std::ptr::write_bytes(ptr, 0xDE, layout.size() + pad);
        // FIFO quarantine under a spin lock
        while QLOCK.compare_exchange_weak(false, true, Acquire, Relaxed).is_err() {
            std::hint::spin_loop();
        }
        let q = &mut *std::ptr::addr_of_mut!(Q);
        let mut evict: [(usize, usize, usize); 4] = [(0, 0, 0); 4];
        let mut ne = 0;
        while (q.len >= QCAP || q.bytes + total > QBYTES) && q.len > 0 && ne < 4 {
            evict[ne] = q.ring[q.head];
            ne += 1;
            q.bytes -= q.ring[q.head].1;
            q.head = (q.head + 1) % QCAP;
            q.len -= 1;
        }
        if q.len < QCAP && total <= QBYTES {
            let tail = (q.head + q.len) % QCAP;
            q.ring[tail] = (base as usize, total, align);
            q.len += 1;
            q.bytes += total;
            QUARANTINED.fetch_add(1, Relaxed);
            QLOCK.store(false, Release);
        } else {
            QLOCK.store(false, Release);
            check_poison_and_release(base as usize, total, align);
        }
        for e in evict.iter().take(ne) {
            check_poison_and_release(e.0, e.1, e.2);
        }
    }

    unsafe fn realloc(&self, ptr: *mut u8, layout: Layout, new_size: usize) -> *mut u8 {
        let new_layout = Layout::from_size_align_unchecked(new_size, layout.align());
        let np = self.alloc(new_layout);
        if !np.is_null() {
            std::ptr::copy_nonoverlapping(ptr, np, layout.size().min(new_size));
            self.dealloc(ptr, layout);
        }
        np
    }
}

/// verify and release everything still parked in the quarantine
pub fn flush_quarantine() {
    unsafe {
        while QLOCK.compare_exchange_weak(false, true, Acquire, Relaxed).is_err() {
            std::hint::spin_loop();
        }
        let q = &mut *std::ptr::addr_of_mut!(Q);
        let mut items = Vec::new();
        let _ = &items;
        QLOCK.store(false, Release);
        // take entries one by one (the Vec above may itself allocate/free)
        loop {
            while QLOCK.compare_exchange_weak(false, true, Acquire, Relaxed).is_err() {
                std::hint::spin_loop();
            }
            if q.len == 0 {
                QLOCK.store(false, Release);
                break;
            }
            let e = q.ring[q.head];
            q.bytes -= e.1;
            q.head = (q.head + 1) % QCAP;
            q.len -= 1;
            QLOCK.store(false, Release);
            items.push(e);
            if items.len() >= 64 {
                for e in items.drain(..) {
                    check_poison_and_release(e.0, e.1, e.2);
                }
            }
        }
        for e in items.drain(..) {
            check_poison_and_release(e.0, e.1, e.2);
        }
    }
}

#[derive(Clone, Copy, Debug, Default)]
pub struct AllocStats {
    pub live_blocks: u64,
    pub lib_live_blocks: u64,
    pub lib_live_bytes: u64,
    pub lib_allocs: u64,
    pub total_allocs: u64,
    pub bad_free: u64,
    pub write_after_free: u64,
    pub quarantined: u64,
}

pub fn stats() -> AllocStats {
    AllocStats {
        live_blocks: LIVE_BLOCKS.load(Relaxed),
        lib_live_blocks: LIB_LIVE_BLOCKS.load(Relaxed),
        lib_live_bytes: LIB_LIVE_BYTES.load(Relaxed),
        lib_allocs: LIB_ALLOCS.load(Relaxed),
        total_allocs: TOTAL_ALLOCS.load(Relaxed),
        bad_free: BAD_FREE.load(Relaxed),
        write_after_free: WRITE_AFTER_FREE.load(Relaxed),
        quarantined: QUARANTINED.load(Relaxed),
    }
}
