//! C05 totality: constructor / builder / conversion grid with an expectation table, then
//! operation sequences on every accepted object with every call under catch_unwind.
use crate::engine::{Cov, Violation};
use crate::lfu_suites;
use crate::subject::{guarded, Cfg, DynKH, KeyType};
use crate::suites::{engine_suite, Ctx, Found, ShardOut};
use crate::track::{DynBH, HKind, LogCb};
use crate::util::*;
use caches::lfu::{SampledLFU, TinyLFU, TinyLFUBuilder};
use caches::{
    AdaptiveCache, AdaptiveCacheBuilder, Cache, RawLRU, SegmentedCache, SegmentedCacheBuilder,
    TwoQueueCache, TwoQueueCacheBuilder, WTinyLFUCache, WTinyLFUCacheBuilder,
};
use std::collections::{BTreeMap, BTreeSet, BinaryHeap, LinkedList, VecDeque};
use std::fmt::Debug;

#[derive(Debug, Clone, PartialEq)]
enum Outc {
    Ok,
    Err(String),
    Panic(String),
}

/// what the documentation prescribes for an argument tuple
#[derive(Debug, Clone)]
enum Expect {
    Ok,
    /// any of these error texts (several arguments may be invalid at once)
    ErrAny(Vec<String>),
    /// either is fine (a ghost bound that floors to 0), but no panic
    OkOrErr(Vec<String>),
}

fn fnum(x: f64) -> String {
    format!("{}", x)
}

/// a small workload on any accepted cache: every call must return normally
fn poke<C: Cache<u32, u32>>(c: &mut C) -> Result<(), String> {
    guarded(|| {
        let n = (c.cap().min(6) + 3) as u32;
        for r in 0..3u32 {
            for k in 0..n {
                c.put(k, k + r);
                c.get(&(k / 2));
                c.get_mut(&k).map(|v| *v += 1);
                c.peek(&((k + 1) % n));
                c.contains(&k);
                if k % 3 == r % 3 {
                    c.remove(&(k / 3));
                }
                c.put(k / 2, 7);
            }
            c.len();
            c.is_empty();
        }
        c.purge();
        c.put(1, 1);
        c.peek_mut(&1);
    })
}

thread_local! {
    /// replay: run only the grid case with this description
    pub static ONLY_CASE: std::cell::RefCell<Option<String>> = const { std::cell::RefCell::new(None) };
}

struct Grid<'a> {
    out: &'a mut ShardOut,
}

impl<'a> Grid<'a> {
    fn case<T>(&mut self, entry: &str, args: String, class: &str, exp: Expect, f: impl FnOnce() -> Result<T, String>, after: impl FnOnce(&mut T) -> Result<(), String>) {
        if let Some(only) = ONLY_CASE.with(|o| o.borrow().clone()) {
            if only != format!("{}({})", entry, args) {
                return;
            }
        }
        let r = guarded(f);
        let (outc, mut obj) = match r {
            Err(p) => (Outc::Panic(p), None),
            Ok(Err(e)) => (Outc::Err(e), None),
            Ok(Ok(t)) => (Outc::Ok, Some(t)),
        };
        self.out.cov.monitored += 1;
        self.out.cov.steps += 1;
        self.out.cov.ops.bump(entry);
        let oc = match &outc {
            Outc::Ok => "Ok",
            Outc::Err(_) => "Err",
            Outc::Panic(_) => "PANIC",
        };
        self.out.cov.triples.insert(format!("{}|ctor|{}|{}", class, entry, oc));
        let mut bad: Option<(&str, String)> = None;
        match (&outc, &exp) {
            (Outc::Panic(p), _) => bad = Some(("ctor-panic", format!("{}({}) panicked: {}", entry, args, p))),
            (Outc::Ok, Expect::Ok) | (Outc::Ok, Expect::OkOrErr(_)) => {}
            (Outc::Ok, Expect::ErrAny(e)) => bad = Some(("ctor-accepts-invalid", format!("{}({}) returned Ok, documented as invalid (expected {})", entry, args, e.join(" or ")))),
            (Outc::Err(e), Expect::Ok) => bad = Some(("ctor-rejects-valid", format!("{}({}) returned Err({}) for valid arguments", entry, args, e))),
            (Outc::Err(e), Expect::ErrAny(es)) | (Outc::Err(e), Expect::OkOrErr(es)) => {
                if !es.iter().any(|x| x == e) {
                    bad = Some(("ctor-wrong-error", format!("{}({}) returned Err({}), expected {}", entry, args, e, es.join(" or "))));
                }
            }
        }
        if bad.is_none() {
            if let Some(o) = obj.as_mut() {
                if let Err(p) = after(o) {
                    bad = Some(("op-panic", format!("an operation on the object built by {}({}) panicked: {}", entry, args, p)));
                }
            }
        }
        if let Err(p) = guarded(move || drop(obj)) {
            bad = Some(("drop-panic", format!("dropping the object built by {}({}) panicked: {}", entry, args, p)));
        }
        if let Some((rule, detail)) = bad {
            let mut extra = BTreeMap::new();
            extra.insert("case".to_string(), format!("{}({})", entry, args));
            self.out.add(Found {
                v: Violation {
                    prop: "C05".into(),
                    rule: rule.into(),
                    sig: format!("C05|{}|{}|{}", rule, entry, class),
                    detail,
                    step: 0,
                },
                cfg: Cfg::lru(1),
                kt: KeyType::Tracked,
                ops: vec![],
                universe: vec![],
                seeds: [0; 4],
                extra,
            });
        }
    }
}

fn e<T, E: Debug>(r: Result<T, E>) -> Result<T, String> {
    r.map_err(|e| format!("{:?}", e))
}

/// W-TinyLFU / TinyLFU errors are identified by matching the variant (their Debug output is
/// a human-readable message that may legitimately be reworded)
fn ew<T>(r: Result<T, caches::lfu::WTinyLFUError>) -> Result<T, String> {
    use caches::lfu::WTinyLFUError as E;
    r.map_err(|e| match e {
        E::InvalidCountMinWidth(v) => format!("InvalidCountMinWidth({})", v),
        E::InvalidSamples(v) => format!("InvalidSamples({})", v),
        E::InvalidWindowCacheSize(v) => format!("InvalidWindowCacheSize({})", v),
        E::InvalidProbationaryCacheSize(v) => format!("InvalidProbationaryCacheSize({})", v),
        E::InvalidProtectedCacheSize(v) => format!("InvalidProtectedCacheSize({})", v),
        E::InvalidFalsePositiveRatio(v) => format!("InvalidFalsePositiveRatio({:?})", v),
        E::Unknown => "Unknown".to_string(),
    })
}
fn et<T>(r: Result<T, caches::lfu::TinyLFUError>) -> Result<T, String> {
    use caches::lfu::TinyLFUError as E;
    r.map_err(|e| match e {
        E::InvalidCountMinWidth(v) => format!("InvalidCountMinWidth({})", v),
        E::InvalidSamples(v) => format!("InvalidSamples({})", v),
        E::InvalidFalsePositiveRatio(v) => format!("InvalidFalsePositiveRatio({:?})", v),
    })
}

const SIZES: [usize; 10] = [0, 1, 2, 3, 4, 5, 7, 8, 100, 1 << 16];

fn ratios() -> Vec<f64> {
    vec![-0.1, -0.0, 0.0, 1e-9, 0.25, 0.5, 1.0 - 1e-9, 1.0, 1.1, f64::INFINITY, f64::NEG_INFINITY, f64::NAN, f64::MIN_POSITIVE]
}
fn fprs() -> Vec<f64> {
    vec![-1.0, 0.0, -0.0, 1e-12, 0.01, 0.5, 1.0 - 1e-12, 1.0, 2.0, f64::NAN, f64::INFINITY, f64::NEG_INFINITY, f64::MIN_POSITIVE]
}

fn rclass(x: f64) -> &'static str {
    if x.is_nan() {
        "nan"
    } else if x < 0.0 {
        "neg"
    } else if x == 0.0 {
        "zero"
    } else if x < 1.0 {
        "inside"
    } else if x == 1.0 {
        "one"
    } else {
        "above"
    }
}
fn sclass(n: usize) -> &'static str {
    match n {
        0 => "0",
        1 => "1",
        2..=8 => "small",
        _ => "big",
    }
}

fn twoq_expect(size: usize, rr: f64, gr: f64) -> Expect {
    let mut errs = vec![];
    if size == 0 {
        errs.push("InvalidSize(0)".to_string());
    }
    if !(0.0..=1.0).contains(&rr) {
        errs.push(format!("InvalidRecentRatio({:?})", rr));
    }
    if !(0.0..=1.0).contains(&gr) {
        errs.push(format!("InvalidGhostRatio({:?})", gr));
    }
    if !errs.is_empty() {
        return Expect::ErrAny(errs);
    }
    if ((size as f64) * gr).floor() as usize == 0 {
        return Expect::OkOrErr(vec!["InvalidSize(0)".to_string()]);
    }
    Expect::Ok
}

fn fpr_bad(f: f64) -> bool {
    !(f > 0.0 && f < 1.0)
}

fn wt_expect(w: usize, t: usize, p: usize, samples: usize, fpr: f64) -> Expect {
    let mut errs = vec![];
    if w == 0 {
        errs.push("InvalidWindowCacheSize(0)".to_string());
    }
    if t == 0 {
        errs.push("InvalidProtectedCacheSize(0)".to_string());
    }
    if p == 0 {
        errs.push("InvalidProbationaryCacheSize(0)".to_string());
    }
    if samples == 0 {
        errs.push("InvalidSamples(0)".to_string());
    }
    if fpr_bad(fpr) {
        errs.push(format!("InvalidFalsePositiveRatio({:?})", fpr));
    }
    if errs.is_empty() {
        Expect::Ok
    } else {
        Expect::ErrAny(errs)
    }
}

fn tiny_expect(size: usize, samples: usize, fpr: f64) -> Expect {
    let mut errs = vec![];
    if size == 0 {
        errs.push("InvalidCountMinWidth(0)".to_string());
    }
    if samples == 0 {
        errs.push("InvalidSamples(0)".to_string());
    }
    if fpr_bad(fpr) {
        errs.push(format!("InvalidFalsePositiveRatio({:?})", fpr));
    }
    if errs.is_empty() {
        Expect::Ok
    } else {
        Expect::ErrAny(errs)
    }
}

fn size_expect(bad: bool) -> Expect {
    if bad {
        Expect::ErrAny(vec!["InvalidSize(0)".to_string()])
    } else {
        Expect::Ok
    }
}

fn poke_lru<E: caches::OnEvictCallback + Clone, S: std::hash::BuildHasher + Clone>(c: &mut RawLRU<u32, u32, E, S>) -> Result<(), String> {
    use caches::ResizableCache;
    poke(c)?;
    guarded(|| {
        for n in [0usize, 1, 3, 1 << 16, 2, 0, 5] {
            c.resize(n);
            for k in 0..5u32 {
                c.put(k, k);
                c.peek_or_put(k + 1, 0);
                c.contains_or_put(k, 1);
                c.peek_mut_or_put(k + 2, 2);
                c.get_lru();
                c.get_lru_mut();
                c.get_mru();
                c.peek_lru_mut();
                c.peek_mru();
                let _ = c.iter().count();
                let _ = c.iter_lru_mut().next_back();
            }
            c.remove_lru();
            c.len();
        }
        c.purge();
        c.remove_lru();
        let _ = format!("{:?}", c);
        // "unbounded": a huge capacity must not be allocated up front anywhere
        c.resize(usize::MAX);
        for k in 0..5u32 {
            c.put(k, k);
        }
        let d = c.clone();
        if d.len() != c.len() {
            panic!("clone of a cache with a huge capacity has {} entries, the original {}", d.len(), c.len());
        }
        drop(d);
        c.resize(usize::MAX - 1);
        c.get(&1);
        c.resize(3);
    })
}

pub fn grid(out: &mut ShardOut) {
    let mut g = Grid { out };
    let h = || DynBH::new(HKind::Fnv);
    // ---- RawLRU constructors
    for &n in &SIZES {
        let ex = size_expect(n == 0);
        g.case("RawLRU::new", n.to_string(), sclass(n), ex.clone(), || e(RawLRU::<u32, u32>::new(n)), |c| poke_lru(c));
        g.case("RawLRU::with_hasher", n.to_string(), sclass(n), ex.clone(), || e(RawLRU::<u32, u32, _, _>::with_hasher(n, h())), |c| poke_lru(c));
        g.case("RawLRU::with_on_evict_cb", n.to_string(), sclass(n), ex.clone(), || e(RawLRU::<u32, u32, LogCbU>::with_on_evict_cb(n, LogCbU)), |c| poke_lru(c));
        g.case("RawLRU::with_on_evict_cb_and_hasher", n.to_string(), sclass(n), ex.clone(), || e(RawLRU::<u32, u32, LogCbU, _>::with_on_evict_cb_and_hasher(n, LogCbU, h())), |c| poke_lru(c));
    }
    // ---- RawLRU conversions (incl. empty inputs and iterators whose size_hint lower bound is 0)
    for &n in &[0usize, 1, 3, 40] {
        let items: Vec<(u32, u32)> = (0..n as u32).map(|i| (i, i)).collect();
        let cls = sclass(n);
        let chk = move |c: &mut RawLRU<u32, u32>| -> Result<(), String> {
            if c.len() != n {
                return Err(format!("conversion of {} distinct pairs produced a cache with len {} (cap {})", n, c.len(), c.cap()));
            }
            poke_lru(c)
        };
        let it = items.clone();
        g.case("RawLRU::from(Vec)", format!("len {}", n), cls, Expect::Ok, || Ok(RawLRU::from(it)), chk);
        let it = items.clone();
        g.case("RawLRU::from(VecDeque)", format!("len {}", n), cls, Expect::Ok, || Ok(RawLRU::from(it.into_iter().collect::<VecDeque<_>>())), chk);
        let it = items.clone();
        g.case("RawLRU::from(LinkedList)", format!("len {}", n), cls, Expect::Ok, || Ok(RawLRU::from(it.into_iter().collect::<LinkedList<_>>())), chk);
        let it = items.clone();
        g.case("RawLRU::from(BTreeSet)", format!("len {}", n), cls, Expect::Ok, || Ok(RawLRU::from(it.into_iter().collect::<BTreeSet<_>>())), chk);
        let it = items.clone();
        g.case("RawLRU::from(BinaryHeap)", format!("len {}", n), cls, Expect::Ok, || Ok(RawLRU::from(it.into_iter().collect::<BinaryHeap<_>>())), chk);
        let it = items.clone();
        g.case("RawLRU::from(BTreeMap)", format!("len {}", n), cls, Expect::Ok, || Ok(RawLRU::from(it.into_iter().collect::<BTreeMap<_, _>>())), chk);
        #[cfg(feature = "std-caches")]
        {
            let it = items.clone();
            g.case("RawLRU::from(HashMap)", format!("len {}", n), cls, Expect::Ok, || Ok(RawLRU::from(it.into_iter().collect::<std::collections::HashMap<_, _>>())), chk);
            let it = items.clone();
            g.case("RawLRU::from(HashSet)", format!("len {}", n), cls, Expect::Ok, || Ok(RawLRU::from(it.into_iter().collect::<std::collections::HashSet<_>>())), chk);
        }
        let it = items.clone();
        g.case("RawLRU::from(&[..])", format!("len {}", n), cls, Expect::Ok, || Ok(RawLRU::from(&it[..])), chk);
        let mut it = items.clone();
        g.case("RawLRU::from(&mut [..])", format!("len {}", n), cls, Expect::Ok, move || Ok(RawLRU::from(&mut it[..])), chk);
        let it = items.clone();
        g.case("RawLRU::from_iter(filter: size_hint lower bound 0)", format!("len {}", n), cls, Expect::Ok, || Ok(it.into_iter().filter(|_| true).collect::<RawLRU<u32, u32>>()), chk);
        let it = items.clone();
        g.case("RawLRU::from_iter(exact)", format!("len {}", n), cls, Expect::Ok, || Ok(it.into_iter().collect::<RawLRU<u32, u32>>()), chk);
        // adaptor chains whose size_hint is far from the truth in either direction
        let nn = n as u64;
        g.case("RawLRU::from_iter(take_while over a huge range: upper bound usize::MAX)", format!("len {}", n), cls, Expect::Ok, || Ok((0..u64::MAX).map(|i| (i as u32, i as u32)).take_while(move |(i, _)| (*i as u64) < nn).collect::<RawLRU<u32, u32>>()), chk);
        g.case("RawLRU::from_iter(unbounded range .take(n))", format!("len {}", n), cls, Expect::Ok, || Ok((0u32..).map(|i| (i, i)).take(n).collect::<RawLRU<u32, u32>>()), chk);
        g.case("RawLRU::from_iter(flat_map: no upper bound)", format!("len {}", n), cls, Expect::Ok, || Ok((0..n as u32).flat_map(|i| std::iter::once((i, i))).collect::<RawLRU<u32, u32>>()), chk);
    }
    g.case("RawLRU::from([..; 0])", "len 0".into(), "0", Expect::Ok, || Ok(RawLRU::<u32, u32>::from([(0u32, 0u32); 0])), |c| poke_lru(c));
    g.case("RawLRU::from([..; 3])", "len 3".into(), "small", Expect::Ok, || Ok(RawLRU::<u32, u32>::from([(0u32, 0u32), (1, 1), (2, 2)])), |c| poke_lru(c));

    // ---- SegmentedCache
    for &a in &[0usize, 1, 2, 100, 1 << 16] {
        for &b in &[0usize, 1, 3, 1 << 16] {
            let ex = size_expect(a == 0 || b == 0);
            let args = format!("{}, {}", a, b);
            let cls = format!("{}/{}", sclass(a), sclass(b));
            g.case("SegmentedCache::new", args.clone(), &cls, ex.clone(), || e(SegmentedCache::<u32, u32>::new(a, b)), |c| poke(c));
            g.case("SegmentedCacheBuilder::finalize", args.clone(), &cls, ex.clone(), || e(SegmentedCacheBuilder::new(a, b).set_probationary_hasher(h()).set_protected_hasher(h()).finalize::<u32, u32>()), |c| poke(c));
            g.case("SegmentedCache::from_builder", args.clone(), &cls, ex.clone(), || e(SegmentedCache::<u32, u32, _, _>::from_builder(SegmentedCache::<u32, u32>::builder(0, 0).set_probationary_size(a).set_protected_size(b))), |c| poke(c));
        }
    }
    g.case("SegmentedCacheBuilder::default", "".into(), "0/0", size_expect(true), || e(SegmentedCacheBuilder::default().finalize::<u32, u32>()), |c| poke(c));

    // ---- AdaptiveCache
    for &n in &SIZES {
        let ex = size_expect(n == 0);
        g.case("AdaptiveCache::new", n.to_string(), sclass(n), ex.clone(), || e(AdaptiveCache::<u32, u32>::new(n)), |c| poke(c));
        g.case("AdaptiveCacheBuilder::finalize", n.to_string(), sclass(n), ex.clone(), || e(AdaptiveCacheBuilder::new(n).set_recent_hasher(h()).set_frequent_hasher(h()).set_recent_evict_hasher(h()).set_frequent_evict_hasher(h()).finalize::<u32, u32>()), |c| poke(c));
        g.case("AdaptiveCache::from_builder", n.to_string(), sclass(n), ex.clone(), || e(AdaptiveCache::<u32, u32, _, _, _, _>::from_builder(AdaptiveCache::<u32, u32>::builder(1).set_size(n))), |c| poke(c));
    }
    g.case("AdaptiveCacheBuilder::default", "".into(), "0", size_expect(true), || e(AdaptiveCacheBuilder::default().finalize::<u32, u32>()), |c| poke(c));

    // ---- TwoQueueCache
    for &n in &[0usize, 1, 2, 3, 4, 5, 7, 100, 1 << 16] {
        for rr in ratios() {
            for gr in ratios() {
                let args = format!("{}, {}, {}", n, fnum(rr), fnum(gr));
                let cls = format!("{}/rr:{}/gr:{}", sclass(n), rclass(rr), rclass(gr));
                let ex = twoq_expect(n, rr, gr);
                g.case("TwoQueueCache::with_2q_parameters", args.clone(), &cls, ex.clone(), || e(TwoQueueCache::<u32, u32>::with_2q_parameters(n, rr, gr)), |c| poke(c));
                g.case("TwoQueueCacheBuilder::finalize", args.clone(), &cls, ex.clone(), || e(TwoQueueCacheBuilder::new(n).set_recent_ratio(rr).set_ghost_ratio(gr).set_recent_hasher(h()).set_frequent_hasher(h()).set_ghost_hasher(h()).finalize::<u32, u32>()), |c| poke(c));
                g.case("TwoQueueCache::from_builder", args.clone(), &cls, ex.clone(), || e(TwoQueueCache::<u32, u32, _, _, _>::from_builder(TwoQueueCache::<u32, u32>::builder(n).set_recent_ratio(rr).set_ghost_ratio(gr))), |c| poke(c));
            }
            let cls = format!("{}/rr:{}", sclass(n), rclass(rr));
            g.case("TwoQueueCache::with_recent_ratio", format!("{}, {}", n, fnum(rr)), &cls, twoq_expect(n, rr, 0.5), || e(TwoQueueCache::<u32, u32>::with_recent_ratio(n, rr)), |c| poke(c));
            let cls = format!("{}/gr:{}", sclass(n), rclass(rr));
            g.case("TwoQueueCache::with_ghost_ratio", format!("{}, {}", n, fnum(rr)), &cls, twoq_expect(n, 0.25, rr), || e(TwoQueueCache::<u32, u32>::with_ghost_ratio(n, rr)), |c| poke(c));
        }
        g.case("TwoQueueCache::new", n.to_string(), sclass(n), twoq_expect(n, 0.25, 0.5), || e(TwoQueueCache::<u32, u32>::new(n)), |c| poke(c));
    }
    g.case("TwoQueueCacheBuilder::default", "".into(), "0", size_expect(true), || e(TwoQueueCacheBuilder::default().finalize::<u32, u32>()), |c| poke(c));

    // ---- WTinyLFUCache
    for &w in &[0usize, 1, 2] {
        for &t in &[0usize, 1, 3] {
            for &p in &[0usize, 1, 2] {
                for &s in &[0usize, 1, 2, 3, 100] {
                    let args = format!("{}, {}, {}, {}", w, t, p, s);
                    let cls = format!("{}/{}/{}/s{}", sclass(w), sclass(t), sclass(p), sclass(s));
                    g.case("WTinyLFUCache::with_sizes", args.clone(), &cls, wt_expect(w, t, p, s, 0.01), || ew(WTinyLFUCache::<u32, u32>::with_sizes(w, t, p, s)), |c| poke(c));
                    for f in fprs() {
                        let args = format!("{}, {}, {}, {}, fpr {}", w, t, p, s, fnum(f));
                        let cls = format!("{}/{}/{}/s{}/fpr:{}", sclass(w), sclass(t), sclass(p), sclass(s), rclass(f));
                        g.case(
                            "WTinyLFUCacheBuilder::finalize",
                            args.clone(),
                            &cls,
                            wt_expect(w, t, p, s, f),
                            || {
                                ew(WTinyLFUCacheBuilder::<u32, DynKH, DynBH, DynBH, DynBH>::with_hashers(DynKH(DynBH::new(HKind::Ident)), h(), h(), h())
                                    .set_window_cache_size(w)
                                    .set_protected_cache_size(t)
                                    .set_probationary_cache_size(p)
                                    .set_samples(s)
                                    .set_false_positive_ratio(f)
                                    .finalize::<u32>())
                            },
                            |c| poke(c),
                        );
                    }
                }
            }
        }
    }
    for &n in &[0usize, 1, 4, 5, 99, 100, 101, 1000, 1 << 16] {
        for &s in &[0usize, 1, 10] {
            // size * 0.01 / 0.8 / 0.2 truncated: any of the three segments may come out as 0
            let (w, t, p) = (((n as f64) * 0.01) as usize, ((n as f64) * 0.8) as usize, ((n as f64) * (1f64 - 0.8)) as usize);
            g.case("WTinyLFUCache::new", format!("{}, {}", n, s), &format!("{}/s{}", sclass(n), sclass(s)), wt_expect(w, t, p, s, 0.01), || ew(WTinyLFUCache::<u32, u32>::new(n, s)), |c| poke(c));
        }
    }
    g.case("WTinyLFUCache::from_builder(default)", "".into(), "0", wt_expect(0, 0, 0, 0, 0.01), || ew(WTinyLFUCache::<u32, u32>::from_builder(WTinyLFUCache::<u32, u32>::builder())), |c| poke(c));

    // ---- TinyLFU
    for &n in &[0usize, 1, 2, 3, 100, 1 << 16, 1 << 20] {
        for &s in &[0usize, 1, 2, 3, 100, 100_000] {
            for f in fprs() {
                let args = format!("{}, {}, {}", n, s, fnum(f));
                let cls = format!("{}/s{}/fpr:{}", sclass(n), sclass(s), rclass(f));
                let ex = tiny_expect(n, s, f);
                let work = |t: &mut TinyLFU<u64>| -> Result<(), String> {
                    guarded(|| {
                        for hh in [0u64, 1, u64::MAX, 1 << 63, (1 << 32) - 1, 1 << 32, 12345] {
                            for _ in 0..3 {
                                t.increment_hashed_key(hh);
                                t.increment(&hh);
                            }
                            t.estimate_hashed_key(hh);
                            t.estimate(&hh);
                            t.contains_hash(hh);
                            t.contains(&hh);
                            t.lt(&hh, &0);
                            t.try_reset();
                        }
                        t.increment_hashed_keys(&[1, 2, u64::MAX]);
                        t.increment_keys(&[&1, &2]);
                        t.clear();
                        t.increment_hashed_key(u64::MAX);
                    })
                };
                g.case("TinyLFU::new", args.clone(), &cls, ex.clone(), || et(TinyLFU::<u64>::new(n, s, f)), work);
                g.case(
                    "TinyLFUBuilder::finalize",
                    args.clone(),
                    &cls,
                    ex.clone(),
                    || et(TinyLFUBuilder::<u64, DynKH>::with_hasher(DynKH(DynBH::new(HKind::Ident))).set_size(n).set_samples(s).set_false_positive_ratio(f).finalize()),
                    |t| {
                        guarded(|| {
                            for hh in [0u64, u64::MAX, 7] {
                                t.increment(&hh);
                                t.increment_hashed_key(hh);
                                t.estimate(&hh);
                                t.ge(&hh, &1);
                            }
                        })
                    },
                );
            }
        }
    }
    g.case("TinyLFU::from_builder(default)", "".into(), "0", tiny_expect(0, 0, 0.01), || et(TinyLFU::<u64>::from_builder(TinyLFUBuilder::<u64>::default())), |_| Ok(()));

    // ---- SampledLFU (no fallible constructor: must simply never panic)
    for &mc in &[i64::MIN / 4, -1, 0, 1, 100, i64::MAX / 4] {
        for &s in &[0usize, 1, 5, 1000, 1 << 20, 1 << 60, usize::MAX / 2, usize::MAX - 1, usize::MAX] {
            let work = |l: &mut SampledLFU<u64>| -> Result<(), String> {
                guarded(|| {
                    for k in [0u64, 1, u64::MAX] {
                        l.increment(&k, 3);
                        l.increment_hashed_key(k, -3);
                        l.update(&k, 1 << 40);
                        l.update_hashed_key(k ^ 1, 0);
                        l.room_left(1 << 40);
                        l.fill_sample(vec![(1, 1)]);
                        l.fill_sample(vec![]);
                    }
                    l.remove(&0);
                    l.remove_hashed_key(77);
                    l.update_max_cost(0);
                    l.clear();
                    l.fill_sample(vec![]);
                })
            };
            g.case("SampledLFU::with_samples", format!("{}, {}", mc, s), &format!("s{}", sclass(s)), Expect::Ok, || Ok::<_, String>(SampledLFU::<u64>::with_samples(mc, s)), work);
        }
        g.case("SampledLFU::new", mc.to_string(), "-", Expect::Ok, || Ok::<_, String>(SampledLFU::<u64>::new(mc)), |l| guarded(|| {
            l.increment(&1, 1);
            l.fill_sample(vec![]);
        }));
        g.case("SampledLFU::with_hasher", mc.to_string(), "-", Expect::Ok, || Ok::<_, String>(SampledLFU::<u64, _, _>::with_hasher(mc, h())), |l| guarded(|| {
            l.increment(&1, 1);
            l.remove(&1);
        }));
        g.case("SampledLFU::with_samples_and_hasher", mc.to_string(), "-", Expect::Ok, || Ok::<_, String>(SampledLFU::<u64, _, _>::with_samples_and_hasher(mc, 0, h())), |l| guarded(|| {
            l.increment(&1, 1);
            l.fill_sample(vec![(3, 3)]);
        }));
        g.case("SampledLFU::with_key_hasher", mc.to_string(), "-", Expect::Ok, || Ok::<_, String>(SampledLFU::<u64, DynKH>::with_key_hasher(mc, DynKH::default())), |l| guarded(|| {
            l.increment(&1, 1);
            l.update(&1, 2);
        }));
        g.case("SampledLFU::with_samples_and_key_hasher", mc.to_string(), "-", Expect::Ok, || Ok::<_, String>(SampledLFU::<u64, DynKH>::with_samples_and_key_hasher(mc, 3, DynKH::default())), |l| guarded(|| {
            l.increment(&1, 1);
            l.clear();
        }));
    }
}

/// eviction callback for u32/u32 caches of the grid (does nothing observable)
#[derive(Clone, Copy)]
pub struct LogCbU;
impl caches::OnEvictCallback for LogCbU {
    fn on_evict<K, V>(&self, _: &K, _: &V) {}
}

pub fn c05_suite(ctx: &Ctx) -> ShardOut {
    let mut out = ShardOut::default();
    // 1. constructor / conversion grid (shard 0 of each variant; it is deterministic)
    if ctx.shard == 0 {
        grid(&mut out);
        out.notes.add("grid-cases", out.cov.monitored);
        if !cfg!(miri) {
            lfu_suites::large_sketch_sweep("C05", &mut out, &[65537, 131073, (1 << 20) + 1, 100_000]);
        }
    }
    // 2. operation sequences on every accepted cache configuration: engine with the
    //    panic monitor; includes resize to 0 / 1 / 2^16 and all *_or_put / lru / mru accessors
    let mut c2 = ctx.clone();
    c2.ops = ctx.ops / 2;
    let e = engine_suite(&c2);
    for f in e.found {
        out.add(f);
    }
    out.cov.merge(&e.cov);
    out.notes.merge(&e.notes);
    out.bfs = e.bfs;
    out.timed_out |= e.timed_out;
    // 3. estimator and cost tracker op sequences: only panics are C05's business
    let mut c3 = ctx.clone();
    c3.ops = ctx.ops / 4;
    for (name, so) in [("C11", lfu_suites::c11_suite(&c3)), ("C20", lfu_suites::c20_suite(&c3))] {
        for mut f in so.found {
            if f.v.rule == "panic" {
                f.extra.insert("from".into(), name.into());
                f.v.sig = f.v.sig.replace(name, "C05");
                f.v.prop = "C05".into();
                out.add(f);
            }
        }
        out.cov.merge(&so.cov);
    }
    let _ = LogCb;
    out
}
