//! Executable reference models (small, deterministic, plain vectors ordered MRU -> LRU) of
//! the five eviction policies, written against the property statements. `step` returns the
//! set of admissible outcomes of one operation; where the statements leave a choice open
//! there is more than one (or a `loose` flag), never a guess.
use crate::ops::*;
use crate::subject::Cfg;

pub type L = Vec<(u32, u64)>;

#[derive(Clone, Debug, PartialEq, Eq)]
pub struct MState {
    pub lists: Vec<L>,
    /// RawLRU: current capacity (changes with resize); others: unused
    pub cap: usize,
    /// ARC adaptation target
    pub p: usize,
}

#[derive(Clone, Debug)]
pub struct Outcome {
    pub res: Res,
    pub st: MState,
    /// entries handed to the eviction callback, in order (RawLRU only)
    pub cb: Vec<(u32, u64)>,
    /// ARC: real ghost lists may be order-preserving sub-sequences of the expected ones
    pub ghost_loose: bool,
    /// ARC: p is not pinned for this operation (purge)
    pub p_loose: bool,
    /// keys that must be at the MRU end of a ghost list after the op (list index, key)
    pub ghost_must_front: Vec<(usize, u32)>,
    /// keys that must not be in any ghost list after the op
    pub ghost_must_not: Vec<u32>,
    /// ARC new-key path: ghost trimming may have discarded the just-evicted entry again
    pub trim_may_empty: bool,
    pub note: &'static str,
}

impl Outcome {
    fn new(res: Res, st: MState) -> Outcome {
        Outcome {
            res,
            st,
            cb: vec![],
            ghost_loose: false,
            p_loose: false,
            ghost_must_front: vec![],
            ghost_must_not: vec![],
            trim_may_empty: false,
            note: "",
        }
    }
    fn cb(mut self, cb: Vec<(u32, u64)>) -> Outcome {
        self.cb = cb;
        self
    }
    fn note(mut self, n: &'static str) -> Outcome {
        self.note = n;
        self
    }
}

fn pos(l: &L, k: u32) -> Option<usize> {
    l.iter().position(|e| e.0 == k)
}
fn take(l: &mut L, k: u32) -> Option<(u32, u64)> {
    pos(l, k).map(|i| l.remove(i))
}
fn front(l: &mut L, e: (u32, u64)) {
    l.insert(0, e);
}
fn touch(l: &mut L, k: u32) -> Option<u64> {
    let e = take(l, k)?;
    front(l, e);
    Some(e.1)
}

/// Expected behaviour of one iterator drive over a list given MRU -> LRU.
pub struct IterExpect {
    /// per step: expected item (key, value id before write) or None when exhausted
    pub items: Vec<Option<(u32, u64)>>,
    /// expected remaining length after each step
    pub lens: Vec<usize>,
    /// remaining items in iteration order at the point of `clone_at`
    pub clone_rest: Option<L>,
    pub final_count: usize,
    /// positions (in MRU -> LRU list order) yielded at each step
    pub positions: Vec<Option<usize>>,
    /// remaining items, in iteration order, after the scripted steps
    pub rest: L,
}

pub fn iter_expect(list: &L, spec: &IterSpec) -> IterExpect {
    // iteration order
    let order: Vec<usize> = if spec.fam.lru_first() {
        (0..list.len()).rev().collect()
    } else {
        (0..list.len()).collect()
    };
    let mut lo = 0usize;
    let mut hi = order.len();
    let mut ex = IterExpect {
        items: vec![],
        lens: vec![],
        clone_rest: None,
        final_count: 0,
        positions: vec![],
        rest: vec![],
    };
    for i in 0..spec.steps {
        if spec.clone_at == i && spec.fam.clonable() {
            ex.clone_rest = Some(order[lo..hi].iter().map(|&p| list[p]).collect());
        }
        let back = (spec.pat >> i) & 1 == 1;
        if lo < hi {
            let p = if back {
                hi -= 1;
                order[hi]
            } else {
                lo += 1;
                order[lo - 1]
            };
            ex.items.push(Some(list[p]));
            ex.positions.push(Some(p));
        } else {
            ex.items.push(None);
            ex.positions.push(None);
        }
        ex.lens.push(hi - lo);
    }
    if spec.clone_at == spec.steps && spec.fam.clonable() {
        ex.clone_rest = Some(order[lo..hi].iter().map(|&p| list[p]).collect());
    }
    ex.final_count = hi - lo;
    ex.rest = order[lo..hi].iter().map(|&p| list[p]).collect();
    ex
}

/// What the W-TinyLFU model needs from the real estimator at decision time.
pub trait EstOracle {
    fn estimate(&self, k: u32) -> u64;
}
pub struct NoEst;
impl EstOracle for NoEst {
    fn estimate(&self, _k: u32) -> u64 {
        0
    }
}

#[derive(Clone, Debug)]
pub struct Model {
    pub cfg: Cfg,
    pub st: MState,
}

// ---- segmented-LRU helpers on (prob, prot) -------------------------------------------

fn slru_promote(prob: &mut L, prot: &mut L, prot_cap: usize, e: (u32, u64)) {
    front(prot, e);
    if prot.len() > prot_cap {
        let d = prot.pop().unwrap();
        front(prob, d);
    }
}

/// put on a segmented main cache; returns the PutResult
fn slru_put(prob: &mut L, prot: &mut L, prob_cap: usize, prot_cap: usize, k: u32, nv: u64) -> PR {
    if let Some(i) = pos(prot, k) {
        let old = prot[i].1;
        prot.remove(i);
        front(prot, (k, nv));
        return PR::Update(old);
    }
    if let Some(e) = take(prob, k) {
        slru_promote(prob, prot, prot_cap, (k, nv));
        return PR::Update(e.1);
    }
    if prob.len() >= prob_cap {
        let ev = prob.pop().unwrap();
        front(prob, (k, nv));
        PR::Evicted(ev.0, ev.1)
    } else {
        front(prob, (k, nv));
        PR::Put
    }
}

fn slru_get(prob: &mut L, prot: &mut L, prot_cap: usize, k: u32, write: Option<u64>) -> Option<u64> {
    if let Some(i) = pos(prot, k) {
        let mut e = prot.remove(i);
        let old = e.1;
        if let Some(w) = write {
            e.1 = w;
        }
        front(prot, e);
        return Some(old);
    }
    if let Some(mut e) = take(prob, k) {
        let old = e.1;
        if let Some(w) = write {
            e.1 = w;
        }
        slru_promote(prob, prot, prot_cap, e);
        return Some(old);
    }
    None
}

fn peek_in(lists: &mut [&mut L], k: u32, write: Option<u64>) -> Option<u64> {
    for l in lists.iter_mut() {
        if let Some(i) = pos(l, k) {
            let old = l[i].1;
            if let Some(w) = write {
                l[i].1 = w;
            }
            return Some(old);
        }
    }
    None
}

fn end_kv(l: &mut L, lru: bool, write: Option<u64>) -> Option<(u32, u64)> {
    if l.is_empty() {
        return None;
    }
    let i = if lru { l.len() - 1 } else { 0 };
    let old = l[i];
    if let Some(w) = write {
        l[i].1 = w;
    }
    Some(old)
}

impl Model {
    pub fn new(cfg: &Cfg) -> Model {
        let n = cfg.kind.list_names().len();
        Model {
            cfg: cfg.clone(),
            st: MState {
                lists: vec![vec![]; n],
                cap: cfg.a,
                p: 0,
            },
        }
    }

    /// bound of every list, in snapshot order
    pub fn bounds(&self) -> Vec<usize> {
        let c = &self.cfg;
        match c.kind {
            Kind::Lru => vec![self.st.cap],
            Kind::Slru => vec![c.a, c.b],
            Kind::TwoQ => vec![c.a, c.a, c.ghost_cap()],
            Kind::Arc => vec![c.a, c.a, c.a, c.a],
            Kind::Wtlfu => vec![c.a, c.c, c.b],
        }
    }

    /// All admissible outcomes of `op` in the current state. `nv` is the fresh value id the
    /// executor used for stores / writes of this op.
    pub fn step(&self, op: &Op, nv: u64, est: &dyn EstOracle) -> Vec<Outcome> {
        // read-only accessors and iterators are common to all types
        if let Some(o) = self.common_readonly(op, nv) {
            return vec![o];
        }
        match self.cfg.kind {
            Kind::Lru => self.step_lru(op, nv),
            Kind::Slru => self.step_slru(op, nv),
            Kind::TwoQ => self.step_twoq(op, nv),
            Kind::Arc => self.step_arc(op, nv),
            Kind::Wtlfu => self.step_wtlfu(op, nv, est),
        }
    }

    fn resident_len(&self) -> usize {
        self.st.lists[..self.cfg.kind.resident_lists()]
            .iter()
            .map(|l| l.len())
            .sum()
    }

    fn common_readonly(&self, op: &Op, nv: u64) -> Option<Outcome> {
        let st = self.st.clone();
        let kind = self.cfg.kind;
        Some(match *op {
            Op::Len => Outcome::new(Res::Num(self.resident_len() as u64), st),
            Op::Cap => {
                let cap = if kind == Kind::Lru {
                    self.st.cap
                } else {
                    self.cfg.total()
                };
                Outcome::new(Res::Num(cap as u64), st)
            }
            Op::IsEmpty => {
                let e = self.st.lists.iter().all(|l| l.is_empty());
                Outcome::new(Res::Bool(e), st)
            }
            Op::Contains(k, _) => {
                let r = self.st.lists[..kind.resident_lists()]
                    .iter()
                    .any(|l| pos(l, k).is_some());
                Outcome::new(Res::Bool(r), st)
            }
            Op::Debug => Outcome::new(Res::Text(String::new()), st),
            Op::SegLens => {
                let mut v: Vec<u64> = match kind {
                    Kind::Lru => vec![st.lists[0].len() as u64],
                    Kind::Slru => vec![
                        st.lists[0].len() as u64,
                        st.lists[1].len() as u64,
                        self.cfg.a as u64,
                        self.cfg.b as u64,
                    ],
                    Kind::TwoQ => st.lists.iter().map(|l| l.len() as u64).collect(),
                    Kind::Arc => st.lists.iter().map(|l| l.len() as u64).collect(),
                    Kind::Wtlfu => vec![
                        st.lists[0].len() as u64,
                        (st.lists[1].len() + st.lists[2].len()) as u64,
                        self.cfg.a as u64,
                        (self.cfg.b + self.cfg.c) as u64,
                    ],
                };
                if kind == Kind::Arc {
                    v.push(st.p as u64);
                }
                Outcome::new(Res::Lens(v), st)
            }
            Op::Iter(ref spec) => {
                let li = spec.list as usize;
                if li >= st.lists.len() {
                    return Some(Outcome::new(Res::Unsupported, st));
                }
                let mut st2 = st.clone();
                let ex = iter_expect(&st.lists[li], spec);
                if spec.write && spec.fam.mutable() {
                    let mut w = 0u64;
                    for p in ex.positions.iter().flatten() {
                        st2.lists[li][*p].1 = nv + w;
                        w += 1;
                    }
                }
                // the trace itself is judged by the iterator monitor; Res::Iter placeholder
                Outcome::new(Res::Iter(IterTrace::default()), st2)
            }
            _ => return None,
        })
    }

    // ---------------------------------------------------------------- RawLRU

    fn lru_put(&self, st: &mut MState, k: u32, nv: u64) -> Vec<(PR, Vec<(u32, u64)>, MState)> {
        let l = &mut st.lists[0];
        if let Some(i) = pos(l, k) {
            let old = l.remove(i).1;
            front(l, (k, nv));
            return vec![(PR::Update(old), vec![], st.clone())];
        }
        if st.cap == 0 {
            // the pair is handed straight back; whether the callback sees it is not pinned
            return vec![
                (PR::Evicted(k, nv), vec![], st.clone()),
                (PR::Evicted(k, nv), vec![(k, nv)], st.clone()),
            ];
        }
        if l.len() >= st.cap {
            let ev = l.pop().unwrap();
            front(l, (k, nv));
            return vec![(PR::Evicted(ev.0, ev.1), vec![ev], st.clone())];
        }
        front(l, (k, nv));
        vec![(PR::Put, vec![], st.clone())]
    }

    fn step_lru(&self, op: &Op, nv: u64) -> Vec<Outcome> {
        let mut st = self.st.clone();
        macro_rules! one {
            ($res:expr) => {{
                let r = $res;
                vec![Outcome::new(r, st)]
            }};
        }
        match *op {
            Op::Put(k) => self
                .lru_put(&mut st, k, nv)
                .into_iter()
                .map(|(pr, cb, s)| Outcome::new(Res::Put(pr), s).cb(cb))
                .collect(),
            Op::Get(k, _) => one!(Res::Val(touch(&mut st.lists[0], k))),
            Op::GetMut(k, _, w) => {
                let l = &mut st.lists[0];
                let r = touch(l, k);
                if r.is_some() && w {
                    l[0].1 = nv;
                }
                one!(Res::Val(r))
            }
            Op::Peek(k, _) => one!(Res::Val(peek_in(&mut [&mut st.lists[0]], k, None))),
            Op::PeekMut(k, _, w) => {
                one!(Res::Val(peek_in(
                    &mut [&mut st.lists[0]],
                    k,
                    if w { Some(nv) } else { None }
                )))
            }
            Op::Remove(k, _) => {
                let e = take(&mut st.lists[0], k);
                let cb = e.into_iter().collect();
                vec![Outcome::new(Res::Val(e.map(|e| e.1)), st).cb(cb)]
            }
            Op::Purge => {
                let mut cb: Vec<(u32, u64)> = st.lists[0].clone();
                cb.reverse();
                st.lists[0].clear();
                vec![Outcome::new(Res::Unit, st).cb(cb)]
            }
            Op::Resize(n) => {
                let mut cb = vec![];
                while st.lists[0].len() > n {
                    cb.push(st.lists[0].pop().unwrap());
                }
                st.cap = n;
                vec![Outcome::new(Res::Num(cb.len() as u64), st).cb(cb)]
            }
            Op::GetLru | Op::GetLruMut(_) => {
                let l = &mut st.lists[0];
                let r = l.pop();
                if let Some(mut e) = r {
                    if let Op::GetLruMut(true) = *op {
                        e.1 = nv;
                    }
                    front(l, e);
                }
                one!(Res::KV(r))
            }
            Op::GetMru => one!(Res::KV(end_kv(&mut st.lists[0], false, None))),
            Op::GetMruMut(w) => {
                one!(Res::KV(end_kv(&mut st.lists[0], false, if w { Some(nv) } else { None })))
            }
            Op::PeekLru => one!(Res::KV(end_kv(&mut st.lists[0], true, None))),
            Op::PeekLruMut(w) => {
                one!(Res::KV(end_kv(&mut st.lists[0], true, if w { Some(nv) } else { None })))
            }
            Op::PeekMru => one!(Res::KV(end_kv(&mut st.lists[0], false, None))),
            Op::PeekMruMut(w) => {
                one!(Res::KV(end_kv(&mut st.lists[0], false, if w { Some(nv) } else { None })))
            }
            Op::PeekOrPut(k) | Op::PeekMutOrPut(k, _) | Op::ContainsOrPut(k) => {
                if let Some(i) = pos(&st.lists[0], k) {
                    let old = st.lists[0][i].1;
                    let found = match *op {
                        Op::ContainsOrPut(_) => None,
                        _ => Some(old),
                    };
                    if let Op::PeekMutOrPut(_, true) = *op {
                        st.lists[0][i].1 = nv + 1;
                    }
                    one!(Res::OrPut(found, true, None))
                } else {
                    self.lru_put(&mut st, k, nv)
                        .into_iter()
                        .map(|(pr, cb, s)| Outcome::new(Res::OrPut(None, false, Some(pr)), s).cb(cb))
                        .collect()
                }
            }
            Op::RemoveLru => {
                let e = st.lists[0].pop();
                let cb = e.into_iter().collect();
                vec![Outcome::new(Res::KV(e), st).cb(cb)]
            }
            _ => one!(Res::Unsupported),
        }
    }

    // ---------------------------------------------------------------- SegmentedCache

    fn step_slru(&self, op: &Op, nv: u64) -> Vec<Outcome> {
        let mut st = self.st.clone();
        let (pc, tc) = (self.cfg.a, self.cfg.b);
        let (a, b) = st.lists.split_at_mut(1);
        let (prob, prot) = (&mut a[0], &mut b[0]);
        let res = match *op {
            Op::Put(k) => Res::Put(slru_put(prob, prot, pc, tc, k, nv)),
            Op::Get(k, _) => Res::Val(slru_get(prob, prot, tc, k, None)),
            Op::GetMut(k, _, w) => Res::Val(slru_get(prob, prot, tc, k, if w { Some(nv) } else { None })),
            Op::Peek(k, _) => Res::Val(peek_in(&mut [prot, prob], k, None)),
            Op::PeekMut(k, _, w) => {
                Res::Val(peek_in(&mut [prot, prob], k, if w { Some(nv) } else { None }))
            }
            Op::Remove(k, _) => Res::Val(take(prob, k).or_else(|| take(prot, k)).map(|e| e.1)),
            Op::Purge => {
                prob.clear();
                prot.clear();
                Res::Unit
            }
            Op::PutProtected(k) => {
                if let Some(i) = pos(prot, k) {
                    let old = prot.remove(i).1;
                    front(prot, (k, nv));
                    Res::Put(PR::Update(old))
                } else if let Some(i) = pos(prob, k) {
                    // pinned: afterwards the key is in protected and nowhere else. Admissible:
                    // (A) promote, demoting protected's LRU to probationary -> Update(old)
                    // (B) promote, evicting protected's LRU and reporting it
                    let old = prob.remove(i).1;
                    let mut outs = vec![];
                    {
                        let (mut pa, mut ta) = (prob.clone(), prot.clone());
                        slru_promote(&mut pa, &mut ta, tc, (k, nv));
                        let mut s = self.st.clone();
                        s.lists = vec![pa, ta];
                        outs.push(Outcome::new(Res::Put(PR::Update(old)), s).note("promote+demote"));
                    }
                    if prot.len() >= tc {
                        let (pa, mut ta) = (prob.clone(), prot.clone());
                        let ev = ta.pop().unwrap();
                        front(&mut ta, (k, nv));
                        let mut s = self.st.clone();
                        s.lists = vec![pa, ta];
                        outs.push(
                            Outcome::new(Res::Put(PR::EvictedAndUpdate(ev.0, ev.1, old)), s)
                                .note("promote+evict"),
                        );
                    }
                    return outs;
                } else {
                    // absent key: (A) protected's LRU is evicted and reported, or
                    // (B) it is demoted to probationary (whose LRU is then evicted on overflow)
                    let mut outs = vec![];
                    if prot.len() >= tc {
                        {
                            let (pa, mut ta) = (prob.clone(), prot.clone());
                            let ev = ta.pop().unwrap();
                            front(&mut ta, (k, nv));
                            let mut s = self.st.clone();
                            s.lists = vec![pa, ta];
                            outs.push(
                                Outcome::new(Res::Put(PR::Evicted(ev.0, ev.1)), s)
                                    .note("evict-protected-lru"),
                            );
                        }
                        {
                            let (mut pa, mut ta) = (prob.clone(), prot.clone());
                            let d = ta.pop().unwrap();
                            front(&mut ta, (k, nv));
                            front(&mut pa, d);
                            let pr = if pa.len() > pc {
                                let ev = pa.pop().unwrap();
                                PR::Evicted(ev.0, ev.1)
                            } else {
                                PR::Put
                            };
                            let mut s = self.st.clone();
                            s.lists = vec![pa, ta];
                            outs.push(Outcome::new(Res::Put(pr), s).note("demote-protected-lru"));
                        }
                        return outs;
                    }
                    front(prot, (k, nv));
                    Res::Put(PR::Put)
                }
            }
            Op::RemoveLruFrom(s) => Res::KV(if s == 0 { prob.pop() } else { prot.pop() }),
            Op::PeekLruFrom(s) => Res::KV(end_kv(if s == 0 { prob } else { prot }, true, None)),
            Op::PeekMruFrom(s) => Res::KV(end_kv(if s == 0 { prob } else { prot }, false, None)),
            Op::PeekLruMutFrom(s, w) => Res::KV(end_kv(
                if s == 0 { prob } else { prot },
                true,
                if w { Some(nv) } else { None },
            )),
            Op::PeekMruMutFrom(s, w) => Res::KV(end_kv(
                if s == 0 { prob } else { prot },
                false,
                if w { Some(nv) } else { None },
            )),
            _ => Res::Unsupported,
        };
        vec![Outcome::new(res, st)]
    }

    // ---------------------------------------------------------------- TwoQueueCache

    fn step_twoq(&self, op: &Op, nv: u64) -> Vec<Outcome> {
        let mut st = self.st.clone();
        let size = self.cfg.a;
        let quota = self.cfg.quota();
        let gcap = self.cfg.ghost_cap();
        let (r0, rest) = st.lists.split_at_mut(1);
        let (r1, r2) = rest.split_at_mut(1);
        let (recent, freq, ghost) = (&mut r0[0], &mut r1[0], &mut r2[0]);
        let res = match *op {
            Op::Put(k) => {
                if let Some(i) = pos(freq, k) {
                    let old = freq.remove(i).1;
                    front(freq, (k, nv));
                    Res::Put(PR::Update(old))
                } else if let Some(e) = take(recent, k) {
                    front(freq, (k, nv));
                    Res::Put(PR::Update(e.1))
                } else if pos(ghost, k).is_some() {
                    if recent.len() + freq.len() >= size {
                        // victim: recent if over quota, else frequent; fall back to the
                        // non-empty queue
                        let from_recent = if recent.len() > quota {
                            !recent.is_empty()
                        } else {
                            freq.is_empty()
                        };
                        let victim = if from_recent { recent.pop() } else { freq.pop() }.unwrap();
                        front(ghost, victim);
                        let dropped = if ghost.len() > gcap { ghost.pop() } else { None };
                        match dropped {
                            Some(g) if g.0 == k => {
                                front(freq, (k, nv));
                                Res::Put(PR::Update(g.1))
                            }
                            other => {
                                let old = take(ghost, k).unwrap().1;
                                front(freq, (k, nv));
                                match other {
                                    Some(g) => Res::Put(PR::EvictedAndUpdate(g.0, g.1, old)),
                                    None => Res::Put(PR::Update(old)),
                                }
                            }
                        }
                    } else {
                        let old = take(ghost, k).unwrap().1;
                        front(freq, (k, nv));
                        Res::Put(PR::Update(old))
                    }
                } else if recent.len() + freq.len() < size {
                    front(recent, (k, nv));
                    Res::Put(PR::Put)
                } else {
                    // at quota also counts for a brand-new key
                    let from_recent = if recent.len() >= quota {
                        !recent.is_empty()
                    } else {
                        freq.is_empty()
                    };
                    let victim = if from_recent { recent.pop() } else { freq.pop() }.unwrap();
                    front(recent, (k, nv));
                    front(ghost, victim);
                    if ghost.len() > gcap {
                        let g = ghost.pop().unwrap();
                        Res::Put(PR::Evicted(g.0, g.1))
                    } else {
                        Res::Put(PR::Put)
                    }
                }
            }
            Op::Get(k, _) | Op::GetMut(k, _, _) => {
                let w = matches!(*op, Op::GetMut(_, _, true));
                if let Some(i) = pos(freq, k) {
                    let mut e = freq.remove(i);
                    let old = e.1;
                    if w {
                        e.1 = nv;
                    }
                    front(freq, e);
                    Res::Val(Some(old))
                } else if let Some(mut e) = take(recent, k) {
                    let old = e.1;
                    if w {
                        e.1 = nv;
                    }
                    front(freq, e);
                    Res::Val(Some(old))
                } else {
                    Res::Val(None)
                }
            }
            Op::Peek(k, _) => Res::Val(peek_in(&mut [freq, recent], k, None)),
            Op::PeekMut(k, _, w) => {
                Res::Val(peek_in(&mut [freq, recent], k, if w { Some(nv) } else { None }))
            }
            Op::Remove(k, _) => Res::Val(
                take(freq, k)
                    .or_else(|| take(recent, k))
                    .or_else(|| take(ghost, k))
                    .map(|e| e.1),
            ),
            Op::Purge => {
                recent.clear();
                freq.clear();
                ghost.clear();
                Res::Unit
            }
            _ => Res::Unsupported,
        };
        vec![Outcome::new(res, st)]
    }

    // ---------------------------------------------------------------- AdaptiveCache

    /// `replace`: make room by moving one resident entry to its ghost list. Ghost lists are
    /// left untrimmed here (trimming is "may discard silently": judged loosely).
    fn arc_replace(st: &mut MState, b2_hit: bool, o: &mut Outcome) {
        let p = st.p;
        let t1 = st.lists[0].len();
        let from_t1 = if t1 > 0 && (t1 > p || (t1 == p && b2_hit)) {
            true
        } else {
            st.lists[1].is_empty()
        };
        if from_t1 {
            if let Some(v) = st.lists[0].pop() {
                front(&mut st.lists[2], v);
                o.ghost_must_front.push((2, v.0));
            }
        } else if let Some(v) = st.lists[1].pop() {
            front(&mut st.lists[3], v);
            o.ghost_must_front.push((3, v.0));
        }
    }

    fn step_arc(&self, op: &Op, nv: u64) -> Vec<Outcome> {
        let mut st = self.st.clone();
        let size = self.cfg.a;
        let mut o = Outcome::new(Res::Unit, self.st.clone());
        o.ghost_loose = true;
        let res = match *op {
            Op::Put(k) => {
                if let Some(e) = take(&mut st.lists[0], k) {
                    front(&mut st.lists[1], (k, nv));
                    Res::Put(PR::Update(e.1))
                } else if let Some(i) = pos(&st.lists[1], k) {
                    let old = st.lists[1].remove(i).1;
                    front(&mut st.lists[1], (k, nv));
                    Res::Put(PR::Update(old))
                } else if pos(&st.lists[2], k).is_some() {
                    let (b1, b2) = (st.lists[2].len(), st.lists[3].len());
                    let delta = if b2 > b1 { b2 / b1 } else { 1 };
                    st.p = (st.p + delta).min(size);
                    let old = take(&mut st.lists[2], k).unwrap().1;
                    if st.lists[0].len() + st.lists[1].len() >= size {
                        Self::arc_replace(&mut st, false, &mut o);
                    }
                    front(&mut st.lists[1], (k, nv));
                    o.ghost_must_not.push(k);
                    Res::Put(PR::Update(old))
                } else if pos(&st.lists[3], k).is_some() {
                    let (b1, b2) = (st.lists[2].len(), st.lists[3].len());
                    let delta = if b1 > b2 { b1 / b2 } else { 1 };
                    st.p = st.p.saturating_sub(delta);
                    let old = take(&mut st.lists[3], k).unwrap().1;
                    if st.lists[0].len() + st.lists[1].len() >= size {
                        Self::arc_replace(&mut st, true, &mut o);
                    }
                    front(&mut st.lists[1], (k, nv));
                    o.ghost_must_not.push(k);
                    Res::Put(PR::Update(old))
                } else {
                    if st.lists[0].len() + st.lists[1].len() >= size {
                        Self::arc_replace(&mut st, false, &mut o);
                    }
                    o.trim_may_empty = true;
                    front(&mut st.lists[0], (k, nv));
                    Res::Put(PR::Put)
                }
            }
            Op::Get(k, _) | Op::GetMut(k, _, _) => {
                let w = matches!(*op, Op::GetMut(_, _, true));
                if let Some(mut e) = take(&mut st.lists[0], k) {
                    let old = e.1;
                    if w {
                        e.1 = nv;
                    }
                    front(&mut st.lists[1], e);
                    Res::Val(Some(old))
                } else if let Some(i) = pos(&st.lists[1], k) {
                    let mut e = st.lists[1].remove(i);
                    let old = e.1;
                    if w {
                        e.1 = nv;
                    }
                    front(&mut st.lists[1], e);
                    Res::Val(Some(old))
                } else {
                    Res::Val(None)
                }
            }
            Op::Peek(k, _) | Op::PeekMut(k, _, _) => {
                let w = if matches!(*op, Op::PeekMut(_, _, true)) {
                    Some(nv)
                } else {
                    None
                };
                let (a, b) = st.lists.split_at_mut(1);
                Res::Val(peek_in(&mut [&mut a[0], &mut b[0]], k, w))
            }
            Op::Remove(k, _) => {
                let mut r = None;
                for l in st.lists.iter_mut() {
                    if let Some(e) = take(l, k) {
                        r = Some(e.1);
                        break;
                    }
                }
                o.ghost_loose = false;
                Res::Val(r)
            }
            Op::Purge => {
                for l in st.lists.iter_mut() {
                    l.clear();
                }
                o.p_loose = true;
                Res::Unit
            }
            _ => Res::Unsupported,
        };
        if !matches!(*op, Op::Put(_)) {
            o.ghost_loose = false;
        }
        o.res = res;
        o.st = st;
        vec![o]
    }

    // ---------------------------------------------------------------- WTinyLFUCache

    fn step_wtlfu(&self, op: &Op, nv: u64, est: &dyn EstOracle) -> Vec<Outcome> {
        let mut st = self.st.clone();
        let (wc, tc, pc) = (self.cfg.a, self.cfg.b, self.cfg.c);
        let (w0, rest) = st.lists.split_at_mut(1);
        let (p1, p2) = rest.split_at_mut(1);
        let (win, prob, prot) = (&mut w0[0], &mut p1[0], &mut p2[0]);
        let res = match *op {
            Op::Put(k) => {
                if let Some(e) = take(win, k) {
                    // window-resident key moves into protected; protected's LRU is demoted
                    // into the window when protected is full
                    if prot.len() >= tc {
                        let d = prot.pop().unwrap();
                        front(win, d);
                    }
                    front(prot, (k, nv));
                    Res::Put(PR::Update(e.1))
                } else if pos(prob, k).is_some() || pos(prot, k).is_some() {
                    Res::Put(slru_put(prob, prot, pc, tc, k, nv))
                } else if win.len() < wc {
                    front(win, (k, nv));
                    Res::Put(PR::Put)
                } else {
                    let cand = win.pop().unwrap();
                    front(win, (k, nv));
                    if prob.len() + prot.len() < pc + tc {
                        Res::Put(slru_put(prob, prot, pc, tc, cand.0, cand.1))
                    } else {
                        match prob.last().copied() {
                            None => Res::Put(slru_put(prob, prot, pc, tc, cand.0, cand.1)),
                            Some(victim) => {
                                if est.estimate(cand.0) < est.estimate(victim.0) {
                                    Res::Put(PR::Evicted(cand.0, cand.1))
                                } else {
                                    Res::Put(slru_put(prob, prot, pc, tc, cand.0, cand.1))
                                }
                            }
                        }
                    }
                }
            }
            Op::Get(k, _) | Op::GetMut(k, _, _) => {
                let w = if matches!(*op, Op::GetMut(_, _, true)) {
                    Some(nv)
                } else {
                    None
                };
                if let Some(i) = pos(win, k) {
                    let mut e = win.remove(i);
                    let old = e.1;
                    if let Some(w) = w {
                        e.1 = w;
                    }
                    front(win, e);
                    Res::Val(Some(old))
                } else {
                    Res::Val(slru_get(prob, prot, tc, k, w))
                }
            }
            Op::Peek(k, _) => Res::Val(peek_in(&mut [win, prot, prob], k, None)),
            Op::PeekMut(k, _, w) => {
                Res::Val(peek_in(&mut [win, prot, prob], k, if w { Some(nv) } else { None }))
            }
            Op::Remove(k, _) => Res::Val(
                take(win, k)
                    .or_else(|| take(prob, k))
                    .or_else(|| take(prot, k))
                    .map(|e| e.1),
            ),
            Op::Purge => {
                win.clear();
                prob.clear();
                prot.clear();
                Res::Unit
            }
            _ => Res::Unsupported,
        };
        vec![Outcome::new(res, st)]
    }
}
