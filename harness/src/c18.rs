//! C18 fault enumeration: for every history, a panic is injected at the i-th call into user
//! code (Hash / Eq / Clone / Drop of keys and values, BuildHasher, Hasher, eviction callback)
//! for every i; after the panic the cache is used further, traversed and dropped. Oracles:
//! the ownership registry (double drop, dropped-but-reachable), the poisoning allocator,
//! and — in the sanitizer variants — Miri / ASan. Leaks and failing operations are allowed.
use crate::engine::{Cov, Violation};
use crate::gen::*;
use crate::ops::*;
use crate::subject::*;
use crate::suites::{Ctx, Found, ShardOut};
use crate::track::*;
use crate::util::*;
use std::collections::BTreeMap;
use std::sync::atomic::{AtomicU64, Ordering};
use std::time::Instant;

pub static HEARTBEAT: AtomicU64 = AtomicU64::new(0);

fn nv_of(i: usize) -> u64 {
    (i as u64 + 1) * 64
}

fn continuation(kind: Kind, uni: &[u32]) -> Vec<Op> {
    let a = uni[0];
    let b = uni[uni.len() / 2];
    let c = *uni.last().unwrap();
    let mut v = vec![
        Op::Len,
        Op::Put(c),
        Op::Get(a, false),
        Op::Peek(b, true),
        Op::Put(a),
        Op::Remove(b, false),
        Op::GetMut(c, false, true),
        Op::Put(b),
        Op::Contains(a, true),
        Op::Put(c + 1),
        Op::Put(c + 2),
    ];
    match kind {
        Kind::Lru => v.extend([Op::GetLru, Op::PeekOrPut(c + 3), Op::RemoveLru, Op::Iter(IterSpec { list: 0, fam: Fam::IterMut, steps: 6, pat: 0b010101, write: true, clone_at: 255, fin: 5 })]),
        Kind::Slru => v.extend([Op::PutProtected(a), Op::RemoveLruFrom(0), Op::PeekLruFrom(1)]),
        Kind::TwoQ | Kind::Arc => v.extend([Op::Iter(IterSpec { list: 2, fam: Fam::Iter, steps: 5, pat: 0, write: false, clone_at: 255, fin: 1 }), Op::Put(c)]),
        Kind::Wtlfu => v.extend([Op::Get(c + 1, false), Op::Put(c + 3)]),
    }
    v.push(Op::Purge);
    v.push(Op::Put(a));
    v.push(Op::Get(a, false));
    v
}

#[derive(Clone, Debug)]
pub struct Scenario {
    pub cfg: Cfg,
    pub ops: Vec<Op>,
    pub uni: Vec<u32>,
    /// take a clone before this op and keep using (0) the original / (1) the clone
    pub clone_at: Option<(usize, bool)>,
    /// at the end, `other.clone_from(&current)` (both are live caches of the same type)
    pub clone_from_end: bool,
}

pub struct InjOut {
    pub fired: Option<Site>,
    pub fired_op: String,
    pub problem: Option<(String, String)>,
    pub ticks: u64,
}

/// one run with a panic injected at tick `at` (0 = counting run)
pub fn run_injected(sc: &Scenario, at: u64) -> InjOut {
    run_faulty(sc, at, false, u32::MAX)
}

/// `lie`: the armed Hash/Eq call answers wrongly instead of panicking; `sticky`: a key number
/// whose Eq is never true (NaN-like key)
pub fn run_faulty(sc: &Scenario, at: u64, lie: bool, sticky: u32) -> InjOut {
    let kind = sc.cfg.kind;
    reg_reset();
    reset_ticks();
    cb_take();
    #[cfg(feature = "talloc")]
    let a0 = crate::talloc::stats();
    let mut out = InjOut { fired: None, fired_op: String::new(), problem: None, ticks: 0 };
    ticking(true);
    set_lie(lie);
    set_sticky_liar(sticky);
    if at > 0 {
        arm(at);
    }
    let sub = make_subject(&sc.cfg, KeyType::Tracked);
    let mut sub = match sub {
        Ok(s) => s,
        Err(_) => {
            ticking(false);
            disarm();
            set_lie(false);
            set_sticky_liar(u32::MAX);
            return out;
        }
    };
    let mut other: Option<Box<dyn DynSubject>> = None;
    let cont = continuation(kind, &sc.uni);
    let total = sc.ops.len() + cont.len();
    for i in 0..total {
        HEARTBEAT.fetch_add(1, Ordering::Relaxed);
        let op = if i < sc.ops.len() { sc.ops[i] } else { cont[i - sc.ops.len()] };
        if let Some((ci, keep_clone)) = sc.clone_at {
            if ci == i {
                match sub.clone_box() {
                    Ok(Some(c)) => {
                        if keep_clone {
                            other = Some(std::mem::replace(&mut sub, c));
                        } else {
                            other = Some(c);
                        }
                    }
                    Ok(None) => {}
                    Err(_) => {
                        if out.fired.is_none() {
                            out.fired = fired();
                            out.fired_op = "clone".into();
                        }
                    }
                }
            }
        }
        // after an injected panic the lists may hold entries the index does not know; a
        // resize can then spin in `while len > cap { remove_lru() }` — not a memory-safety
        // matter, so it is left out of the post-panic part (hangs are inconclusive anyway)
        if (out.fired.is_some() || sticky != u32::MAX) && matches!(op, Op::Resize(_)) {
            // (the same holds for a key that never equals itself: it cannot be removed through
            // the index, so the shrink loop of resize never terminates - a liveness matter of
            // ill-behaved keys, not a memory-safety one)
            continue;
        }
        let r = sub.exec(&op, nv_of(i));
        if let Res::Panic(_) = r {
            if out.fired.is_none() {
                out.fired = fired();
                out.fired_op = op.name().to_string();
            }
        }
        // a wrong Hash/Eq answer does not panic: note when it has been given
        if out.fired.is_none() {
            if let Some(f) = fired() {
                out.fired = Some(f);
                out.fired_op = op.name().to_string();
            }
        }
        cb_take();
    }
    if sc.clone_from_end {
        if let Some(o) = other.as_mut() {
            if o.clone_from_dyn(sub.as_ref()).is_err() && out.fired.is_none() {
                out.fired = fired();
                out.fired_op = "clone_from".into();
            }
            // keep using the target of the (possibly interrupted) clone_from
            for (j, op) in [Op::Put(sc.uni[0]), Op::Get(sc.uni[sc.uni.len() / 2], false), Op::Put(*sc.uni.last().unwrap() + 5), Op::Purge].iter().enumerate() {
                let _ = o.exec(op, nv_of(total + j));
            }
            cb_take();
        }
    }
    // traverse everything still reachable: a freed object that is still linked is either a
    // registry hit here or a sanitizer report on the read
    for s in [Some(&sub), other.as_ref()].into_iter().flatten() {
        for (koid, void, k) in s.reachable() {
            if !reg_is_live(koid) || !reg_is_live(void) {
                out.problem = Some(("dropped-but-reachable".into(), format!("after the injected panic key {} is still reachable in the cache but its key/value object was already dropped", k)));
            }
        }
    }
    if let Some(o) = other.take() {
        if guarded(move || drop(o)).is_err() && out.fired.is_none() {
            out.fired = fired();
            out.fired_op = "drop".into();
        }
    }
    if guarded(move || drop(sub)).is_err() && out.fired.is_none() {
        out.fired = fired();
        out.fired_op = "drop".into();
    }
    ticking(false);
    disarm();
    set_lie(false);
    set_sticky_liar(u32::MAX);
    out.ticks = ticks();
    let errs = reg_take_errors();
    if let Some(e) = errs.first() {
        out.problem = Some(("double-drop".into(), e.clone()));
    }
    #[cfg(feature = "talloc")]
    {
        let a = crate::talloc::stats();
        if a.bad_free != a0.bad_free {
            out.problem = Some(("invalid-free".into(), "a heap block was freed twice (or with a wrong layout) after the injected panic".into()));
        }
        if a.write_after_free != a0.write_after_free {
            out.problem = Some(("write-after-free".into(), "a freed (quarantined) block was written to after the injected panic".into()));
        }
    }
    out
}

/// conversions (`From` / `FromIterator`) call user code too (Hash/Eq of the keys, Clone for the
/// borrowed inputs, Drop of replaced values): a panic at the i-th such call must not lead to a
/// double drop either. Returns (ticks, problem).
pub fn run_conversion_injected(which: u8, keys: &[u32], at: u64) -> (u64, Option<(String, String)>, Option<Site>) {
    use caches::{Cache, RawLRU};
    use std::collections::{LinkedList, VecDeque};
    reg_reset();
    reset_ticks();
    #[cfg(feature = "talloc")]
    let a0 = crate::talloc::stats();
    ticking(true);
    if at > 0 {
        arm(at);
    }
    let mk = |keys: &[u32]| -> Vec<(TKey, TVal)> { keys.iter().enumerate().map(|(i, k)| (TKey::new(*k), TVal::new(i as u64 + 1))).collect() };
    let _ = guarded(|| {
        let mut c: RawLRU<TKey, TVal> = match which % 7 {
            0 => RawLRU::from(mk(keys)),
            1 => mk(keys).into_iter().collect(),
            2 => {
                let v = mk(keys);
                RawLRU::from(&v[..])
            }
            3 => {
                let mut v = mk(keys);
                RawLRU::from(&mut v[..])
            }
            4 => RawLRU::from(mk(keys).into_iter().collect::<VecDeque<_>>()),
            5 => RawLRU::from(mk(keys).into_iter().collect::<LinkedList<_>>()),
            _ => {
                let mut it = mk(keys).into_iter().chain(mk(&[7, 8, 9, 7]));
                let arr: [(TKey, TVal); 4] = [it.next().unwrap(), it.next().unwrap(), it.next().unwrap(), it.next().unwrap()];
                RawLRU::from(arr)
            }
        };
        c.put(TKey::new(1), TVal::new(99));
        let _ = c.get(&KNum(0));
        c.purge();
    });
    ticking(false);
    let f = fired();
    disarm();
    let t = ticks();
    let mut problem = None;
    if let Some(e) = reg_take_errors().first() {
        problem = Some(("double-drop".to_string(), format!("{} (conversion kind {} of keys {:?})", e, which % 7, keys)));
    }
    #[cfg(feature = "talloc")]
    {
        let a = crate::talloc::stats();
        if a.bad_free != a0.bad_free {
            problem = Some(("invalid-free".into(), format!("a heap block was freed twice during/after conversion kind {} of keys {:?}", which % 7, keys)));
        }
    }
    (t, problem, f)
}

fn gen_scenario(rng: &mut Rng, thorough: bool) -> Scenario {
    let kind = *rng.pick(&KINDS);
    let mut cfg = random_cfg(kind, rng, false);
    // small capacities: every operation evicts / migrates
    match kind {
        Kind::Lru => cfg.a = rng.range(1, 3) as usize,
        Kind::Slru => {
            cfg.a = rng.range(1, 2) as usize;
            cfg.b = rng.range(1, 2) as usize;
        }
        Kind::TwoQ => {
            cfg.a = rng.range(2, 4) as usize;
            cfg.gr = 1.0;
        }
        Kind::Arc => cfg.a = rng.range(1, 3) as usize,
        Kind::Wtlfu => {
            cfg.a = rng.range(1, 2) as usize;
            cfg.b = 1;
            cfg.c = rng.range(1, 2) as usize;
            cfg.samples = *rng.pick(&[1usize, 3, 8]);
        }
    }
    cfg.ctor = 0;
    cfg.hk = *rng.pick(&[HKind::Fnv, HKind::Zero, HKind::Ident, HKind::Two, HKind::RandA]);
    let n = (cfg.total() + rng.range(1, 3) as usize) as u32;
    let uni: Vec<u32> = (0..n).collect();
    let len = rng.range(3, if thorough { 14 } else { 10 }) as usize;
    let ops = random_history(&cfg, &uni, len, rng, Mix::Policy);
    let clone_at = if matches!(kind, Kind::Lru | Kind::Slru | Kind::Wtlfu) && rng.chance(1, 3) {
        Some((rng.below(len as u64) as usize, rng.chance(1, 2)))
    } else {
        None
    };
    let clone_from_end = clone_at.is_some() && rng.chance(1, 2);
    Scenario { cfg, ops, uni, clone_at, clone_from_end }
}

fn record(out: &mut ShardOut, sc: &Scenario, at: u64, rule: &str, detail: String, site: Option<Site>, fired_op: &str) {
    let mut extra = BTreeMap::new();
    extra.insert("inject-at".to_string(), at.to_string());
    extra.insert("nkeys".to_string(), sc.uni.len().to_string());
    if let Some((i, k)) = sc.clone_at {
        extra.insert("clone".to_string(), format!("{}:{}:{}", i, k as u8, sc.clone_from_end as u8));
    }
    let site_name = site.map(|s| SITE_NAMES[s as usize]).unwrap_or("?");
    out.add(Found {
        v: Violation {
            prop: "C18".into(),
            rule: rule.into(),
            sig: format!("C18|{}|{}|{}|{}", sc.cfg.kind.name(), rule, site_name, fired_op),
            detail: format!("panic injected at user-code call #{} ({} during {}): {}", at, site_name, fired_op, detail),
            step: at as usize,
        },
        cfg: sc.cfg.clone(),
        kt: KeyType::Tracked,
        ops: sc.ops.clone(),
        universe: sc.uni.clone(),
        seeds: [0; 4],
        extra,
    });
}

pub fn c18_suite(ctx: &Ctx) -> ShardOut {
    let mut out = ShardOut::default();
    let mut rng = Rng::new(mix(ctx.seed, 0xC18) ^ ctx.shard.wrapping_mul(0x9E37));
    let deadline = Instant::now() + std::time::Duration::from_secs(ctx.max_secs);
    set_heapy(ctx.heapy);
    // ctx.ops = budget of injected runs
    let mut runs = 0u64;
    // conversions under injection (a small share of the budget)
    {
        let mut conv_runs = 0u64;
        let mut round = 0u8;
        while conv_runs < ctx.ops / 8 && Instant::now() < deadline {
            round = round.wrapping_add(1);
            let n = rng.range(4, 9) as usize;
            let span = rng.range(2, 7);
            let keys: Vec<u32> = (0..n).map(|_| rng.below(span) as u32).collect();
            let (nt, p0, _) = run_conversion_injected(round, &keys, 0);
            if let Some((rule, d)) = p0 {
                out.add(Found { v: Violation { prop: "C18".into(), rule: rule.clone(), sig: format!("C18|conversion|{}|none", rule), detail: format!("(no panic injected) {}", d), step: 0 }, cfg: Cfg::lru(1), kt: KeyType::Tracked, ops: vec![], universe: vec![], seeds: [0; 4], extra: BTreeMap::new() });
            }
            let stride = if ctx.inject_stride > 1 { ctx.inject_stride } else { 1 };
            let mut i = 1 + if stride > 1 { rng.below(stride) } else { 0 };
            while i <= nt {
                let (_, p, f) = run_conversion_injected(round, &keys, i);
                conv_runs += 1;
                runs += 1;
                if let Some(site) = f {
                    out.cov.monitored += 1;
                    out.cov.triples.insert(format!("inject|conversion{}|{}", round % 7, SITE_NAMES[site as usize]));
                }
                if let Some((rule, d)) = p {
                    let site_name = f.map(|s| SITE_NAMES[s as usize]).unwrap_or("?");
                    let mut extra = BTreeMap::new();
                    extra.insert("note".to_string(), "conversion scenario (re-run the shard)".to_string());
                    out.add(Found { v: Violation { prop: "C18".into(), rule: rule.clone(), sig: format!("C18|conversion|{}|{}", rule, site_name), detail: format!("panic injected at user-code call #{} ({}): {}", i, site_name, d), step: i as usize }, cfg: Cfg::lru(1), kt: KeyType::Tracked, ops: vec![], universe: vec![], seeds: [0; 4], extra });
                }
                i += stride;
            }
        }
    }
    // the injection machinery prints the shard summary even if a later history hangs
    while runs < ctx.ops && Instant::now() < deadline {
        let sc = gen_scenario(&mut rng, ctx.thorough);
        let count = run_injected(&sc, 0);
        let n = count.ticks;
        if n == 0 {
            continue;
        }
        out.cov.histories += 1;
        if out.cov.samples.len() < 4 {
            out.cov.samples.push(format!(
                "{} keys={} clone={:?}: {} | {} calls into user code => {} injected runs, each followed by {} further ops, traversal and drop",
                sc.cfg.describe(), sc.uni.len(), sc.clone_at, ops_to_string(&sc.ops), n, n, continuation(sc.cfg.kind, &sc.uni).len()
            ));
        }
        if let Some((rule, d)) = count.problem {
            record(&mut out, &sc, 0, &rule, format!("(no panic injected) {}", d), None, "-");
        }
        // every i; under the slow tools a stride keeps each history affordable while the
        // offset rotates, so that over many histories every position class is hit
        let stride = if ctx.inject_stride > 1 { ctx.inject_stride } else { 1 };
        let off = if stride > 1 { rng.below(stride) } else { 0 };
        let mut i = 1 + off;
        while i <= n + 2 {
            let r = run_injected(&sc, i);
            runs += 1;
            out.cov.steps += (sc.ops.len() + 20) as u64;
            match r.fired {
                None => {
                    // tick counts can vary slightly between runs with randomly keyed hashers
                    out.notes.bump("armed-but-not-reached");
                }
                Some(site) => {
                    out.cov.monitored += 1;
                    out.cov.ops.bump(SITE_NAMES[site as usize]);
                    out.cov.triples.insert(format!("inject|{}|{}|{}", sc.cfg.kind.name(), SITE_NAMES[site as usize], r.fired_op));
                    out.cov.must.bump(&format!("{}:{}", sc.cfg.kind.name(), SITE_NAMES[site as usize]));
                }
            }
            if let Some((rule, d)) = r.problem {
                record(&mut out, &sc, i, &rule, d, r.fired, &r.fired_op);
            }
            i += stride;
        }
    }
    out
}

/// C03, "chaotic keys" phase: Hash/Eq that answer wrongly once (every position i) and keys
/// that never equal themselves. Such key types are safe code, so the lists must stay
/// memory-safe (operations may panic, entries may be lost or leak).
pub fn c03_chaotic(ctx: &Ctx, out: &mut ShardOut, budget: u64) {
    let mut rng = Rng::new(mix(ctx.seed, 0xC03C) ^ ctx.shard.wrapping_mul(0x9E37));
    let deadline = Instant::now() + std::time::Duration::from_secs(ctx.max_secs);
    let mut runs = 0u64;
    while runs < budget && Instant::now() < deadline {
        let sc = gen_scenario(&mut rng, ctx.thorough);
        // (a) NaN-like key
        let sticky = sc.uni[rng.below(sc.uni.len() as u64) as usize];
        if std::env::var("CVH_TRACE").is_ok() {
            eprintln!("chaotic: {} keys={} sticky={} ops={}", sc.cfg.to_text(), sc.uni.len(), sticky, ops_to_string(&sc.ops));
        }
        let r = run_faulty(&sc, 0, false, sticky);
        runs += 1;
        out.cov.monitored += 1;
        out.cov.triples.insert(format!("chaotic|{}|never-equal-key", sc.cfg.kind.name()));
        if let Some((rule, d)) = r.problem {
            let mut extra = BTreeMap::new();
            extra.insert("sticky".to_string(), sticky.to_string());
            extra.insert("nkeys".to_string(), sc.uni.len().to_string());
            out.add(Found {
                v: Violation { prop: "C03".into(), rule: format!("chaotic-{}", rule), sig: format!("C03|{}|chaotic-{}|never-equal-key", sc.cfg.kind.name(), rule), detail: format!("key {} never compares equal (NaN-like key): {}", sticky, d), step: 0 },
                cfg: sc.cfg.clone(), kt: KeyType::Tracked, ops: sc.ops.clone(), universe: sc.uni.clone(), seeds: [0; 4], extra,
            });
        }
        // (b) one wrong answer at every Hash/Eq position
        let n = run_injected(&sc, 0).ticks;
        let stride = if ctx.inject_stride > 1 { ctx.inject_stride } else { 1 };
        let mut i = 1 + if stride > 1 { rng.below(stride) } else { 0 };
        while i <= n {
            let r = run_faulty(&sc, i, true, u32::MAX);
            runs += 1;
            if let Some(site) = r.fired {
                out.cov.monitored += 1;
                out.cov.triples.insert(format!("chaotic|{}|{}-lies|{}", sc.cfg.kind.name(), SITE_NAMES[site as usize], r.fired_op));
            }
            if let Some((rule, d)) = r.problem {
                let mut extra = BTreeMap::new();
                extra.insert("lie-at".to_string(), i.to_string());
                extra.insert("nkeys".to_string(), sc.uni.len().to_string());
                let site_name = r.fired.map(|s| SITE_NAMES[s as usize]).unwrap_or("?");
                out.add(Found {
                    v: Violation { prop: "C03".into(), rule: format!("chaotic-{}", rule), sig: format!("C03|{}|chaotic-{}|{}", sc.cfg.kind.name(), rule, site_name), detail: format!("user-code call #{} ({}) answered wrongly once: {}", i, site_name, d), step: i as usize },
                    cfg: sc.cfg.clone(), kt: KeyType::Tracked, ops: sc.ops.clone(), universe: sc.uni.clone(), seeds: [0; 4], extra,
                });
            }
            i += stride;
        }
    }
}

pub fn replay(cfg: &Cfg, ops: &[Op], extra: &BTreeMap<String, String>) -> Option<(String, String)> {
    if extra.contains_key("sticky") || extra.contains_key("lie-at") {
        let nk: u32 = extra.get("nkeys")?.parse().ok()?;
        let sc = Scenario { cfg: cfg.clone(), ops: ops.to_vec(), uni: (0..nk).collect(), clone_at: None, clone_from_end: false };
        let r = if let Some(s) = extra.get("sticky") {
            run_faulty(&sc, 0, false, s.parse().ok()?)
        } else {
            run_faulty(&sc, extra.get("lie-at")?.parse().ok()?, true, u32::MAX)
        };
        println!("fired: {:?} during {}", r.fired.map(|s| SITE_NAMES[s as usize]), r.fired_op);
        return r.problem;
    }
    let at: u64 = extra.get("inject-at")?.parse().ok()?;
    let nk: u32 = extra.get("nkeys")?.parse().ok()?;
    let clone_at = extra.get("clone").and_then(|c| {
        let p: Vec<&str> = c.split(':').collect();
        Some((p.first()?.parse().ok()?, p.get(1) == Some(&"1")))
    });
    let cfe = extra.get("clone").map(|c| c.split(':').nth(2) == Some("1")).unwrap_or(false);
    let sc = Scenario { cfg: cfg.clone(), ops: ops.to_vec(), uni: (0..nk).collect(), clone_at, clone_from_end: cfe };
    let r = run_injected(&sc, at);
    println!("fired: {:?} during {}; ticks {}", r.fired.map(|s| SITE_NAMES[s as usize]), r.fired_op, r.ticks);
    r.problem
}
