//! Differential monitors (no reference model involved):
//!  * C16 — clone: snapshot equality at the clone point, lock-step suffix, independence, drop;
//!  * C17 — the same history under every BuildHasher (and with perturbed allocation
//!          addresses, and with the cache swapped for its clone mid-way): identical traces;
//!  * C13 — the same history with read-only calls inserted: identical common results.
use crate::engine::{Cov, Violation};
use crate::gen::*;
use crate::ops::*;
use crate::subject::*;
use crate::suites::{Ctx, Found, ShardOut};
use crate::track::*;
use crate::util::*;
use std::collections::BTreeMap;
use std::time::Instant;

fn mk_found(prop: &str, rule: &str, kind: Kind, detail: String, cfg: &Cfg, kt: KeyType, ops: &[Op], extra: BTreeMap<String, String>, seeds: [u64; 4], step: usize) -> Found {
    Found {
        v: Violation {
            prop: prop.into(),
            rule: rule.into(),
            sig: format!("{}|{}|{}", prop, kind.name(), rule),
            detail,
            step,
        },
        cfg: cfg.clone(),
        kt,
        ops: ops.to_vec(),
        universe: vec![],
        seeds,
        extra,
    }
}

fn nv_of(i: usize) -> u64 {
    (i as u64 + 1) * 64
}

fn snap_text(kind: Kind, s: &Result<Snapshot, String>) -> String {
    match s {
        Ok(s) => s.describe(kind),
        Err(e) => format!("<audit failed: {}>", e),
    }
}

// =======================================================================================
// C16
// =======================================================================================

/// one clone scenario. `clone_at` = index into ops where the clone is taken; `fork_at` = index
/// from which only one of the two keeps being used (the other is checked for independence
/// and then dropped, or dropped first).
pub fn run_clone(cfg: &Cfg, kt: KeyType, ops: &[Op], clone_at: usize, fork_at: usize, keep_clone: bool, seeds: [u64; 4], cov: &mut Cov) -> Option<(String, String, usize)> {
    let kind = cfg.kind;
    reg_reset();
    cb_take();
    let mut a = match make_subject(cfg, kt) {
        Ok(s) => s,
        Err(_) => return None,
    };
    a.reseed(seeds);
    for (i, op) in ops[..clone_at.min(ops.len())].iter().enumerate() {
        if let Res::Panic(p) = a.exec(op, nv_of(i)) {
            let _ = p;
            return None; // panics are C05's business
        }
    }
    cb_take();
    let sa = a.snapshot(false);
    // either `clone()`, or `clone_from` onto an existing cache that already holds entries
    // (sometimes exactly as many as the source) - of the same configuration, or of the same
    // type with other sizes, sample size and doorkeeper false-positive ratio
    let via_clone_from = seeds[1] % 3 == 0;
    let mut b = if via_clone_from {
        let mut tcfg = cfg.clone();
        if seeds[3] % 2 == 0 {
            tcfg.a += 1 + (seeds[3] >> 8) as usize % 3;
            if matches!(kind, Kind::Slru | Kind::Wtlfu) {
                tcfg.b += (seeds[3] >> 12) as usize % 3;
            }
            if kind == Kind::Wtlfu {
                tcfg.c += (seeds[3] >> 16) as usize % 2;
                tcfg.samples += 1 + (seeds[3] >> 20) as usize % 40;
                tcfg.gr = [0.3, 0.001, 0.9, 0.05][(seeds[3] >> 28) as usize % 4];
            }
            cov.must.bump("clone_from-other-configuration");
        }
        let mut t = match make_subject(&tcfg, kt) {
            Ok(t) => t,
            Err(_) => return None,
        };
        t.reseed(seeds);
        let n_target = if seeds[2] % 2 == 0 { sa.as_ref().map(|s| s.total_items()).unwrap_or(0) } else { (seeds[2] % 5) as usize };
        for j in 0..n_target {
            let _ = t.exec(&Op::Put(100 + j as u32), 900_000 + j as u64);
        }
        cb_take();
        match t.clone_from_dyn(a.as_ref()) {
            Err(p) => return Some(("clone-panic".into(), format!("clone_from() panicked: {} (source state {})", p, snap_text(kind, &sa)), clone_at)),
            Ok(false) => return None,
            Ok(true) => {}
        }
        cov.must.bump("clone_from");
        // entries the target held before are released by clone_from; callbacks for them are
        // not pinned by the property
        cb_take();
        t
    } else {
        match a.clone_box() {
            Err(p) => return Some(("clone-panic".into(), format!("clone() panicked: {} (state {})", p, snap_text(kind, &sa)), clone_at)),
            Ok(None) => return None,
            Ok(Some(b)) => b,
        }
    };
    let cb_clone = cb_take();
    if !cb_clone.is_empty() {
        return Some(("clone-callback".into(), format!("clone() invoked the eviction callback: {:?}", cb_clone), clone_at));
    }
    let sb = b.snapshot(false);
    let (sa, sb) = match (sa, sb) {
        (Ok(x), Ok(y)) => (x, y),
        (x, y) => return Some(("clone-audit".into(), format!("audit after clone: original {} / clone {}", snap_text(kind, &x), snap_text(kind, &y)), clone_at)),
    };
    cov.monitored += 1;
    cov.triples.insert(format!("clone|{}|items{}|{}", kind.name(), sa.total_items().min(6), if sa.lists.iter().any(|l| l.len() >= 2) { "multi" } else { "le1" }));
    cov.states.insert(sa.abstract_hash());
    if sa.total_items() >= 5 {
        cov.must.bump("clone-of-5+-entries");
    }
    if !sa.same(&sb, false) {
        return Some(("clone-differs".into(), format!("the clone is not identical to the original at the moment of cloning: original {} caps {:?}; clone {} caps {:?}{}", sa.describe(kind), sa.caps, sb.describe(kind), sb.caps, if sa.est != sb.est { " (estimator state differs)" } else { "" }), clone_at));
    }
    // the clone must also *answer* like the original: frequency estimates go through the key
    // hasher, which the raw estimator digest does not cover
    {
        let uni: Vec<u32> = (0..12).collect();
        let (ea, eb) = (a.estimates(&uni), b.estimates(&uni));
        if ea != eb {
            return Some(("clone-differs".into(), format!("frequency estimates of keys 0..12 differ between original {:?} and clone {:?} right after clone()", ea, eb), clone_at));
        }
    }
    // no sharing: distinct key/value objects and distinct node addresses
    if kt == KeyType::Tracked {
        for (la, lb) in sa.lists.iter().zip(sb.lists.iter()) {
            for (x, y) in la.iter().zip(lb.iter()) {
                if x.koid == y.koid || x.void == y.void || x.kaddr == y.kaddr {
                    return Some(("clone-shares".into(), format!("the clone shares an object or a node with the original (key {})", x.k), clone_at));
                }
            }
        }
    }
    // lock-step suffix
    let fork_at = fork_at.clamp(clone_at, ops.len());
    for (i, op) in ops[clone_at..fork_at].iter().enumerate() {
        let i = clone_at + i;
        let ra = a.exec(op, nv_of(i));
        let ca = cb_take();
        let rb = b.exec(op, nv_of(i));
        let cbb = cb_take();
        cov.monitored += 1;
        cov.steps += 2;
        cov.ops.bump(op.name());
        cov.triples.insert(format!("lockstep|{}|{}|{}", kind.name(), op.name(), ra.class()));
        if matches!(ra, Res::Panic(_)) && matches!(rb, Res::Panic(_)) {
            return None;
        }
        let (xa, xb) = (a.snapshot(false), b.snapshot(false));
        let same_state = match (&xa, &xb) {
            (Ok(x), Ok(y)) => x.same(y, false),
            _ => false,
        };
        let res_same = match (&ra, &rb) {
            (Res::Text(_), Res::Text(_)) => true,
            _ => ra == rb,
        };
        if !res_same || ca != cbb || !same_state {
            return Some((
                "lockstep-diverges".into(),
                format!("{} after the clone: original -> {} (callback {:?}, state {}); clone -> {} (callback {:?}, state {}); state at clone: {}", op, ra, ca, snap_text(kind, &xa), rb, cbb, snap_text(kind, &xb), sa.describe(kind)),
                i,
            ));
        }
        if matches!(ra, Res::Put(PR::Evicted(..))) {
            cov.must.bump("eviction-on-both-after-clone");
        }
    }
    // independence: keep using one, the other must not change; then drop the other
    let (mut live, idle, who) = if keep_clone { (b, a, "original") } else { (a, b, "clone") };
    let idle_before = idle.snapshot(false);
    let drop_first = (seeds[0] ^ fork_at as u64) & 1 == 1;
    let mut idle = Some(idle);
    if drop_first {
        let d = idle.take().unwrap();
        if let Err(p) = guarded(move || drop(d)) {
            return Some(("drop-panic".into(), format!("dropping the {} panicked: {}", who, p), fork_at));
        }
    }
    for (i, op) in ops[fork_at..].iter().enumerate() {
        let i = fork_at + i;
        let r = live.exec(op, nv_of(i));
        cb_take();
        cov.steps += 1;
        if matches!(r, Res::Panic(_)) {
            return None;
        }
        if let Err(e) = live.snapshot(false) {
            return Some(("independence-audit".into(), format!("after {} on the survivor (the {} was {}): {}", op, who, if drop_first { "dropped" } else { "left alone" }, e), i));
        }
        if let Some(id) = &idle {
            let now = id.snapshot(false);
            let unchanged = match (&idle_before, &now) {
                (Ok(x), Ok(y)) => x.same(y, true),
                _ => false,
            };
            if !unchanged {
                return Some(("not-independent".into(), format!("{} on one object changed the other ({}): before {} after {}", op, who, snap_text(kind, &idle_before), snap_text(kind, &now)), i));
            }
        }
    }
    cov.monitored += 1;
    if let Some(d) = idle.take() {
        if let Err(p) = guarded(move || drop(d)) {
            return Some(("drop-panic".into(), format!("dropping the {} panicked: {}", who, p), ops.len()));
        }
        // the survivor must still be fully usable
        if let Err(e) = live.snapshot(true) {
            return Some(("independence-audit".into(), format!("after dropping the {}: {}", who, e), ops.len()));
        }
        let _ = live.probes(&[0, 1, 2, 3]);
    }
    if let Err(p) = guarded(move || drop(live)) {
        return Some(("drop-panic".into(), format!("dropping the survivor panicked: {}", p), ops.len()));
    }
    if kt == KeyType::Tracked {
        let errs = reg_take_errors();
        if let Some(e) = errs.first() {
            return Some(("double-drop".into(), format!("{} (clone scenario)", e), ops.len()));
        }
        let (lk, lv) = reg_live();
        if lk != 0 || lv != 0 {
            return Some(("leak".into(), format!("after dropping original and clone {} keys / {} values are still alive", lk, lv), ops.len()));
        }
    }
    None
}

pub fn c16_suite(ctx: &Ctx) -> ShardOut {
    let mut out = ShardOut::default();
    let mut rng = Rng::new(mix(ctx.seed, 0xC16) ^ ctx.shard.wrapping_mul(0x9E37));
    let deadline = Instant::now() + std::time::Duration::from_secs(ctx.max_secs);
    set_heapy(ctx.heapy);
    let kinds = [Kind::Lru, Kind::Slru, Kind::Wtlfu];
    // TinyLFU clone (estimator alone)
    tinylfu_clone(&mut out, &mut rng, (ctx.ops / 20).max(50));
    let mut first = true;
    let start = out.cov.steps;
    while out.cov.steps - start < ctx.ops && Instant::now() < deadline {
        let kind = *rng.pick(&kinds);
        let mut cfg = random_cfg(kind, &mut rng, ctx.thorough);
        if first {
            // a clone of >= 5 entries whose order differs from insertion order
            cfg = Cfg::lru(8).with_hasher(HKind::RandA);
        }
        let kt = if rng.chance(1, 4) { KeyType::Str } else { KeyType::Tracked };
        let uni = universe_for(&cfg, &mut rng);
        let n = rng.range(6, ctx.hist_len.max(8) as u64) as usize;
        let mut ops = random_history(&cfg, &uni, n, &mut rng, Mix::Policy);
        if first {
            ops = (0..8).map(Op::Put).chain([Op::Get(2, false), Op::Get(0, true), Op::Put(9), Op::Put(10), Op::Get(1, false), Op::Put(11)]).collect();
            first = false;
        }
        let mut clone_at = rng.range(0, ops.len() as u64) as usize;
        if cfg.kind == Kind::Lru && rng.chance(1, 6) {
            // the "unbounded" idiom right before the clone: nothing may pre-allocate by capacity
            ops.insert(clone_at, Op::Resize(usize::MAX));
            clone_at += 1;
        }
        let fork_at = rng.range(clone_at as u64, ops.len() as u64) as usize;
        let keep_clone = rng.chance(1, 2);
        let seeds = [rng.next(), rng.next(), rng.next(), rng.next()];
        out.cov.histories += 1;
        if out.cov.samples.len() < 3 {
            out.cov.samples.push(format!("{} {}: clone after {} ops, lock-step until {}, then only the {} is used: {}", cfg.describe(), kt.name(), clone_at, fork_at, if keep_clone { "clone" } else { "original" }, ops_to_string(&ops[..ops.len().min(20)])));
        }
        if let Some((rule, detail, step)) = run_clone(&cfg, kt, &ops, clone_at, fork_at, keep_clone, seeds, &mut out.cov) {
            // shrink: drop ops while the same rule fires (clone/fork points shift with removals)
            let mut cur = (ops.clone(), clone_at, fork_at);
            let mut i = 0;
            let mut budget = crate::engine::SHRINK_BUDGET.load(std::sync::atomic::Ordering::Relaxed);
            while i < cur.0.len() && budget > 0 {
                budget -= 1;
                let mut o = cur.0.clone();
                o.remove(i);
                let ca = if i < cur.1 { cur.1 - 1 } else { cur.1 };
                let fa = if i < cur.2 { cur.2 - 1 } else { cur.2 };
                let r = run_clone(&cfg, kt, &o, ca, fa.max(ca), keep_clone, seeds, &mut Cov::default());
                if r.map(|x| x.0 == rule).unwrap_or(false) {
                    cur = (o, ca, fa.max(ca));
                } else {
                    i += 1;
                }
            }
            let (rule, detail, step) = run_clone(&cfg, kt, &cur.0, cur.1, cur.2, keep_clone, seeds, &mut Cov::default()).unwrap_or((rule, detail, step));
            let mut extra = BTreeMap::new();
            extra.insert("clone-at".into(), cur.1.to_string());
            extra.insert("fork-at".into(), cur.2.to_string());
            extra.insert("keep-clone".into(), (keep_clone as u8).to_string());
            out.add(mk_found("C16", &rule, cfg.kind, detail, &cfg, kt, &cur.0, extra, seeds, step));
        }
    }
    out
}

/// TinyLFU with the crate's DefaultKeyHasher (randomly keyed per instance): a clone must hash
/// keys like the original, or its copied counters mean nothing
fn tinylfu_clone_default(out: &mut ShardOut, rng: &mut Rng) {
    use caches::lfu::TinyLFU;
    for round in 0..30u32 {
        let mut a = match TinyLFU::<u64>::new(64, 1000, 0.01) {
            Ok(t) => t,
            Err(_) => return,
        };
        let keys: Vec<u64> = (0..16).map(|_| rng.next()).collect();
        let r = guarded(|| {
            for (i, k) in keys.iter().enumerate() {
                for _ in 0..(i % 5) {
                    a.increment(k);
                }
            }
            let b = a.clone();
            for k in &keys {
                if a.estimate(k) != b.estimate(k) || a.contains(k) != b.contains(k) {
                    return Some(format!("TinyLFU (default key hasher) clone answers differently: estimate({}) = {} vs {}", k, a.estimate(k), b.estimate(k)));
                }
            }
            None
        });
        out.cov.monitored += 1;
        out.cov.triples.insert(format!("clone|tinylfu-default-hasher|round{}", round % 3));
        if let Ok(Some(d)) = r {
            let mut extra = BTreeMap::new();
            extra.insert("note".into(), "tinylfu clone scenario (re-run the shard)".into());
            out.add(mk_found("C16", "tinylfu-clone", Kind::Wtlfu, d, &Cfg::lru(1), KeyType::Tracked, &[], extra, [0; 4], 0));
            return;
        }
    }
}

fn tinylfu_clone(out: &mut ShardOut, rng: &mut Rng, n: u64) {
    use caches::lfu::TinyLFUBuilder;
    tinylfu_clone_default(out, rng);
    for _ in 0..n {
        let size = *rng.pick(&[1usize, 4, 16, 100]);
        let samples = *rng.pick(&[1usize, 3, 8, 50]);
        let t = TinyLFUBuilder::<u64, DynKH>::with_hasher(DynKH(DynBH::new(HKind::Ident))).set_size(size).set_samples(samples).finalize();
        let mut a = match t {
            Ok(t) => t,
            Err(_) => continue,
        };
        let pre = rng.below(40);
        let keys: Vec<u64> = (0..4).map(|_| if rng.chance(1, 3) { rng.next() } else { rng.below(6) }).collect();
        let r = guarded(|| {
            for _ in 0..pre {
                a.increment(rng.pick(&keys));
            }
            let mut b = a.clone();
            if a.verif_digest() != b.verif_digest() {
                return Some(format!("TinyLFU clone differs from the original right after clone(): {:?} vs {:?}", a.verif_digest().0, b.verif_digest().0));
            }
            let post = rng.below(30);
            for _ in 0..post {
                let k = *rng.pick(&keys);
                match rng.below(5) {
                    0 => {
                        a.try_reset();
                        b.try_reset();
                    }
                    _ => {
                        a.increment(&k);
                        b.increment(&k);
                    }
                }
                if a.verif_digest() != b.verif_digest() || keys.iter().any(|k| a.estimate(k) != b.estimate(k) || a.contains(k) != b.contains(k)) {
                    return Some("TinyLFU original and clone diverge on the same operations".to_string());
                }
            }
            let before = b.verif_digest();
            a.increment(&keys[0]);
            a.clear();
            if b.verif_digest() != before {
                return Some("operations on the original TinyLFU changed its clone".to_string());
            }
            drop(a);
            for k in &keys {
                b.increment(k);
                b.estimate(k);
            }
            None
        });
        out.cov.monitored += 1;
        out.cov.steps += pre + 10;
        out.cov.triples.insert(format!("clone|tinylfu|size{}|samples{}|pre{}", size, samples, pre.min(3)));
        let d = match r {
            Err(p) => Some(format!("TinyLFU clone scenario panicked: {}", p)),
            Ok(x) => x,
        };
        if let Some(d) = d {
            let mut extra = BTreeMap::new();
            extra.insert("note".into(), "tinylfu clone scenario (re-run the shard)".into());
            out.add(mk_found("C16", "tinylfu-clone", Kind::Wtlfu, d, &Cfg::lru(1), KeyType::Tracked, &[], extra, [0; 4], 0));
            return;
        }
    }
}

// =======================================================================================
// C17 and C13 (differential part): traces
// =======================================================================================

#[derive(Clone, PartialEq, Debug)]
pub struct TraceStep {
    pub res: String,
    pub cb: Vec<(u32, u64)>,
    pub state: String,
}

/// execute a history and return its full output trace. `clone_swap_at`: positions where the
/// cache is replaced by its clone (when the type is cloneable). `junk`: perturb allocation
/// addresses by interleaving harness allocations.
pub fn trace(cfg: &Cfg, kt: KeyType, ops: &[Op], seeds: [u64; 4], clone_swap_at: &[usize], junk: bool) -> Result<Vec<TraceStep>, String> {
    let kind = cfg.kind;
    cb_take();
    let mut sub = make_subject(cfg, kt)?;
    sub.reseed(seeds);
    let mut out = Vec::with_capacity(ops.len());
    let mut hoard: Vec<Vec<u8>> = vec![];
    let mut j = Rng::new(0x51AB ^ ops.len() as u64);
    for (i, op) in ops.iter().enumerate() {
        if clone_swap_at.contains(&i) {
            if let Ok(Some(c)) = sub.clone_box() {
                sub = c;
            }
            cb_take();
        }
        if junk {
            for _ in 0..j.below(3) {
                hoard.push(vec![0u8; j.range(1, 200) as usize]);
            }
            if hoard.len() > 40 {
                hoard.swap_remove(j.below(hoard.len() as u64) as usize);
            }
        }
        let r = sub.exec(op, nv_of(i));
        let cb = cb_take();
        let panicked = matches!(r, Res::Panic(_));
        let res = match &r {
            Res::Text(_) => "Text".to_string(),
            Res::Panic(_) => "PANIC".to_string(),
            other => other.to_string(),
        };
        // histories of thousands of steps over thousands of entries: results and callbacks are
        // compared at every step, the full state at every 97th step, around every bulk
        // operation and over the last 30 steps
        let sparse = ops.len() > 500 && !(i % 97 == 0 || i + 30 >= ops.len() || matches!(op, Op::Resize(_) | Op::Purge) || matches!(ops.get(i.wrapping_sub(1)), Some(Op::Resize(_))));
        let state = if sparse {
            String::new()
        } else {
            match sub.snapshot(false) {
                Ok(s) => format!("{} caps={:?} est={}", s.describe(kind), s.caps, s.est.as_ref().map(|e| e.w as i64).unwrap_or(-1)),
                Err(e) => format!("<audit: {}>", e),
            }
        };
        out.push(TraceStep { res, cb, state });
        if panicked {
            break;
        }
    }
    let _ = guarded(move || drop(sub));
    Ok(out)
}

fn first_diff(a: &[TraceStep], b: &[TraceStep]) -> Option<usize> {
    for i in 0..a.len().min(b.len()) {
        if a[i] != b[i] {
            return Some(i);
        }
    }
    if a.len() != b.len() {
        Some(a.len().min(b.len()))
    } else {
        None
    }
}

fn variants_c17(cfg: &Cfg) -> Vec<(Cfg, bool, String)> {
    let mut v = vec![];
    for (i, h) in HKINDS.iter().enumerate() {
        v.push((cfg.clone().with_ctor(0).with_hasher(*h), i % 2 == 1, h.name().to_string()));
    }
    if cfg.kind != Kind::Wtlfu {
        // (the plain W-TinyLFU constructor also uses a randomly keyed *key* hasher, i.e.
        // different estimator verdicts, which the statement excludes)
        v.push((cfg.clone().with_ctor(1), true, "default-hasher".to_string()));
    }
    v
}

pub fn run_c17(cfg: &Cfg, kt: KeyType, ops: &[Op], seeds: [u64; 4], swaps: &[usize], cov: &mut Cov) -> Option<(String, String, usize)> {
    let vars = variants_c17(cfg);
    let base = match trace(&vars[0].0, kt, ops, seeds, swaps, vars[0].1) {
        Ok(t) => t,
        Err(_) => return None,
    };
    if base.last().map(|s| s.res == "PANIC").unwrap_or(false) {
        return None;
    }
    cov.monitored += base.len() as u64;
    cov.steps += (base.len() * vars.len()) as u64;
    for (i, op) in ops.iter().enumerate().take(base.len()) {
        cov.ops.bump(op.name());
        cov.triples.insert(format!("hashers|{}|{}|{}", cfg.kind.name(), op.name(), base[i].res.split('(').next().unwrap_or("")));
    }
    if !swaps.is_empty() {
        cov.must.bump("clone-in-history");
    }
    for (vc, junk, name) in vars.iter().skip(1) {
        let t = match trace(vc, kt, ops, seeds, swaps, *junk) {
            Ok(t) => t,
            Err(e) => return Some(("construct-differs".into(), format!("the configuration is accepted with hasher {} but rejected with {}: {}", vars[0].2, name, e), 0)),
        };
        if let Some(i) = first_diff(&base, &t) {
            let a = base.get(i);
            let b = t.get(i);
            return Some((
                "trace-differs".into(),
                format!("step {} ({}): with hasher {}: {:?}; with hasher {}: {:?}", i, ops.get(i).map(|o| o.to_string()).unwrap_or_default(), vars[0].2, a, name, b),
                i,
            ));
        }
    }
    None
}

/// Construction through `FromIterator` / `From` is part of the history too: the same input
/// must give the same cache (order, eviction choice) every time, whatever the hidden hasher
/// seeds of the moment are.
fn conversions_deterministic(out: &mut ShardOut, rng: &mut Rng) {
    use caches::{Cache, RawLRU, ResizableCache};
    use std::collections::{BTreeMap, LinkedList, VecDeque};
    fn observe(c: &mut RawLRU<u32, u32>) -> Vec<(u32, u32)> {
        let mut v: Vec<(u32, u32)> = c.iter().map(|(k, v)| (*k, *v)).collect();
        v.push((u32::MAX, c.cap() as u32));
        // eviction choices
        for i in 0..3u32 {
            if let caches::PutResult::Evicted { key, value } = c.put(1_000_000 + i, 0) {
                v.push((key, value));
            }
        }
        c.resize(2);
        v.extend(c.iter().map(|(k, v)| (*k, *v)));
        v
    }
    for round in 0..40u32 {
        // mostly small inputs; a few of a thousand pairs and more (native builds)
        let large = round % 10 == 9 && !cfg!(miri);
        let n = if large { [1100usize, 1500, 2100, 4200][(round / 10) as usize % 4] } else { rng.range(2, 30) as usize };
        let mut items: Vec<(u32, u32)> = (0..n as u32).map(|i| (rng.below(1000) as u32 * 7 + i, i)).collect();
        if large && round % 20 == 9 {
            // a fifth of the keys occur twice
            for i in 0..n / 5 {
                let d = items[rng.below(n as u64) as usize];
                items.push((d.0, 100_000 + i as u32));
            }
        }
        if round % 3 == 0 {
            // repeated keys
            let d = items[0];
            items.push((d.0, 99));
        }
        let builds: Vec<(&str, Box<dyn Fn() -> RawLRU<u32, u32>>)> = vec![
            ("from(Vec)", Box::new({ let it = items.clone(); move || RawLRU::from(it.clone()) })),
            ("from(&[..])", Box::new({ let it = items.clone(); move || RawLRU::from(&it[..]) })),
            ("collect()", Box::new({ let it = items.clone(); move || it.iter().cloned().collect() })),
            ("from(VecDeque)", Box::new({ let it = items.clone(); move || RawLRU::from(it.iter().cloned().collect::<VecDeque<_>>()) })),
            ("from(LinkedList)", Box::new({ let it = items.clone(); move || RawLRU::from(it.iter().cloned().collect::<LinkedList<_>>()) })),
            ("from(BTreeMap)", Box::new({ let it = items.clone(); move || RawLRU::from(it.iter().cloned().collect::<BTreeMap<_, _>>()) })),
        ];
        for (name, b) in builds {
            let r = guarded(|| {
                let first = observe(&mut b());
                for _ in 0..4 {
                    let again = observe(&mut b());
                    if again != first {
                        return Some(format!("RawLRU::{} of the same {} pairs gives different caches on different builds: {:?} vs {:?}", name, items.len(), &first[..first.len().min(8)], &again[..again.len().min(8)]));
                    }
                }
                None
            });
            out.cov.monitored += 1;
            out.cov.triples.insert(format!("conversion|lru|{}|n{}", name, n.min(4)));
            let d = match r {
                Ok(x) => x,
                Err(_) => None, // panics are C05's business
            };
            if let Some(d) = d {
                let mut extra = BTreeMap::new();
                extra.insert("note".into(), "conversion determinism (re-run the shard)".into());
                out.add(mk_found("C17", "conversion-order", Kind::Lru, d, &Cfg::lru(1), KeyType::Tracked, &[], extra, [0; 4], 0));
                return;
            }
        }
    }
}

pub fn c17_suite(ctx: &Ctx) -> ShardOut {
    let mut out = ShardOut::default();
    {
        let mut r = Rng::new(mix(ctx.seed, 0xC17C) ^ ctx.shard);
        conversions_deterministic(&mut out, &mut r);
    }
    let mut rng = Rng::new(mix(ctx.seed, 0xC17) ^ ctx.shard.wrapping_mul(0x9E37));
    let deadline = Instant::now() + std::time::Duration::from_secs(ctx.max_secs);
    set_heapy(ctx.heapy);
    // thousands of entries, single calls that evict more than a thousand (native builds)
    if !cfg!(miri) && ctx.shard < 2 && ctx.variant != "valgrind" && ctx.variant != "asan" {
        for &kind in &KINDS {
            let (cfg, ops, _uni) = huge_history(kind, ctx.shard as usize, &mut rng);
            let seeds = [rng.next(), rng.next(), rng.next(), rng.next()];
            out.cov.histories += 1;
            out.cov.must.bump("huge-history");
            if let Some((rule, detail, step)) = run_c17(&cfg, KeyType::Tracked, &ops, seeds, &[], &mut out.cov) {
                let cut = &ops[..(step + 1).min(ops.len())];
                out.add(mk_found("C17", &rule, cfg.kind, detail, &cfg, KeyType::Tracked, cut, BTreeMap::new(), seeds, step));
                return out;
            }
        }
    }
    let mut first = true;
    while out.cov.steps < ctx.ops && Instant::now() < deadline {
        let kind = *rng.pick(&KINDS);
        let mut cfg = random_cfg(kind, &mut rng, ctx.thorough);
        if matches!(cfg.kh, HKind::RandA | HKind::RandB) {
            // the statement conditions W-TinyLFU on equal estimator verdicts: same key hashes
            cfg.kh = HKind::Ident;
        }
        let kt = if rng.chance(1, 4) { KeyType::Str } else { KeyType::Tracked };
        let mut uni = universe_for(&cfg, &mut rng);
        let n = rng.range(6, ctx.hist_len.max(8) as u64) as usize;
        let mut ops = random_history(&cfg, &uni, n, &mut rng, Mix::Full);
        let mut swaps: Vec<usize> = vec![];
        if matches!(kind, Kind::Lru | Kind::Slru | Kind::Wtlfu) && rng.chance(1, 2) {
            swaps.push(rng.below(ops.len() as u64) as usize);
        }
        if first {
            // >= 8 colliding resident keys, a clone in the history
            cfg = Cfg::lru(10);
            uni = (0..12).collect();
            ops = (0..10).map(Op::Put).chain([Op::Get(3, false), Op::Get(1, false), Op::Put(10), Op::Put(11), Op::RemoveLru, Op::Resize(4), Op::Put(12)]).collect();
            swaps = vec![12];
            first = false;
            out.cov.must.bump("zero-hasher-8+-resident");
        }
        let _ = &uni;
        let seeds = [rng.next(), rng.next(), rng.next(), rng.next()];
        out.cov.histories += 1;
        if out.cov.samples.len() < 3 {
            out.cov.samples.push(format!("{} {} under hashers {:?} + default, clone-swap at {:?}: {}", cfg.describe(), kt.name(), HKINDS.iter().map(|h| h.name()).collect::<Vec<_>>(), swaps, ops_to_string(&ops[..ops.len().min(20)])));
        }
        if let Some((rule, detail, step)) = run_c17(&cfg, kt, &ops, seeds, &swaps, &mut out.cov) {
            let mut cur = (ops.clone(), swaps.clone());
            let mut i = 0;
            let mut budget = crate::engine::SHRINK_BUDGET.load(std::sync::atomic::Ordering::Relaxed);
            while i < cur.0.len() && budget > 0 {
                budget -= 1;
                let mut o = cur.0.clone();
                o.remove(i);
                let sw: Vec<usize> = cur.1.iter().map(|s| if i < *s { *s - 1 } else { *s }).collect();
                if run_c17(&cfg, kt, &o, seeds, &sw, &mut Cov::default()).map(|x| x.0 == rule).unwrap_or(false) {
                    cur = (o, sw);
                } else {
                    i += 1;
                }
            }
            let (rule, detail, step) = run_c17(&cfg, kt, &cur.0, seeds, &cur.1, &mut Cov::default()).unwrap_or((rule, detail, step));
            let mut extra = BTreeMap::new();
            extra.insert("swaps".into(), cur.1.iter().map(|s| s.to_string()).collect::<Vec<_>>().join("+"));
            out.add(mk_found("C17", &rule, cfg.kind, detail, &cfg, kt, &cur.0, extra, seeds, step));
        }
    }
    out
}

// ---- C13 differential ------------------------------------------------------------------

fn readonly_pool(kind: Kind, uni: &[u32], rng: &mut Rng) -> Op {
    let k = *rng.pick(uni);
    let alt = rng.chance(1, 2);
    let s = rng.below(2) as u8;
    let nl = kind.list_names().len() as u64;
    loop {
        let op = match rng.below(18) {
            0 => Op::Peek(k, alt),
            1 => Op::PeekMut(k, alt, false),
            2 => Op::Contains(k, alt),
            3 => Op::Len,
            4 => Op::Cap,
            5 => Op::IsEmpty,
            6 => Op::SegLens,
            7 if kind == Kind::Lru => Op::PeekLru,
            8 if kind == Kind::Lru => Op::PeekMru,
            9 if kind == Kind::Lru => Op::GetMru,
            10 if kind == Kind::Lru => *rng.pick(&[Op::PeekLruMut(false), Op::PeekMruMut(false), Op::GetMruMut(false)]),
            11 if kind == Kind::Lru || kind == Kind::TwoQ => Op::Debug,
            12 if kind == Kind::Slru => *rng.pick(&[Op::PeekLruFrom(s), Op::PeekMruFrom(s)]),
            13 if kind == Kind::Slru => *rng.pick(&[Op::PeekLruMutFrom(s, false), Op::PeekMruMutFrom(s, false)]),
            14..=17 if has_iters(kind) => {
                let fams: &[Fam] = if kind == Kind::Lru { &FAMS } else { &FAMS[..10] };
                let steps = rng.range(0, 9) as u8;
                Op::Iter(IterSpec { list: rng.below(nl) as u8, fam: *rng.pick(fams), steps, pat: rng.next() as u32 & 0x1ff, write: false, clone_at: if rng.chance(1, 2) { rng.range(0, steps as u64) as u8 } else { 255 }, fin: rng.below(9) as u8 })
            }
            _ => continue,
        };
        return op;
    }
}

/// returns the interleaved history and, for each op of it, the index in the base history
fn interleave(kind: Kind, base: &[Op], uni: &[u32], rng: &mut Rng) -> (Vec<Op>, Vec<Option<usize>>) {
    let mut ops = vec![];
    let mut idx = vec![];
    for (i, op) in base.iter().enumerate() {
        for _ in 0..rng.below(4) {
            ops.push(readonly_pool(kind, uni, rng));
            idx.push(None);
        }
        ops.push(*op);
        idx.push(Some(i));
    }
    for _ in 0..rng.below(3) {
        ops.push(readonly_pool(kind, uni, rng));
        idx.push(None);
    }
    (ops, idx)
}

/// the vids depend on the step index, so the base history is executed with the vids of the
/// interleaved positions: both runs go through `trace_at`.
fn trace_at(cfg: &Cfg, kt: KeyType, ops: &[Op], nvs: &[u64], seeds: [u64; 4]) -> Result<Vec<TraceStep>, String> {
    let kind = cfg.kind;
    cb_take();
    let mut sub = make_subject(cfg, kt)?;
    sub.reseed(seeds);
    let mut out = vec![];
    for (op, nv) in ops.iter().zip(nvs.iter()) {
        let r = sub.exec(op, *nv);
        let cb = cb_take();
        let panicked = matches!(r, Res::Panic(_));
        let res = match &r {
            Res::Text(_) => "Text".to_string(),
            Res::Panic(_) => "PANIC".to_string(),
            other => other.to_string(),
        };
        let state = match sub.snapshot(false) {
            Ok(s) => format!("{} caps={:?} est={:?}", s.describe(kind), s.caps, s.est.as_ref().map(|e| (e.w, &e.rows, &e.words))),
            Err(e) => format!("<audit: {}>", e),
        };
        out.push(TraceStep { res, cb, state });
        if panicked {
            break;
        }
    }
    let _ = guarded(move || drop(sub));
    Ok(out)
}

pub fn run_c13_diff(cfg: &Cfg, kt: KeyType, base: &[Op], inter: &[Op], idx: &[Option<usize>], seeds: [u64; 4], cov: &mut Cov) -> Option<(String, String, usize)> {
    let nv_i: Vec<u64> = (0..inter.len()).map(nv_of).collect();
    let nv_b: Vec<u64> = idx.iter().enumerate().filter_map(|(j, b)| b.map(|_| nv_i[j])).collect();
    let ta = trace_at(cfg, kt, base, &nv_b, seeds).ok()?;
    let tb = trace_at(cfg, kt, inter, &nv_i, seeds).ok()?;
    if ta.last().map(|s| s.res == "PANIC").unwrap_or(false) || tb.last().map(|s| s.res == "PANIC").unwrap_or(false) {
        return None;
    }
    cov.steps += (ta.len() + tb.len()) as u64;
    for (j, b) in idx.iter().enumerate() {
        if j >= tb.len() {
            break;
        }
        match b {
            None => {
                cov.monitored += 1;
                cov.ops.bump(inter[j].name());
                cov.triples.insert(format!("inserted|{}|{}", cfg.kind.name(), inter[j].name()));
            }
            Some(bi) => {
                if *bi >= ta.len() {
                    break;
                }
                if ta[*bi] != tb[j] {
                    let inserted: Vec<String> = inter[..j].iter().zip(idx.iter()).filter(|(_, x)| x.is_none()).map(|(o, _)| o.to_string()).collect();
                    return Some((
                        "later-result-changed".into(),
                        format!("{} (op {} of the history) gives {:?} without and {:?} with the read-only calls [{}] inserted before it", inter[j], bi, ta[*bi], tb[j], inserted.join(", ")),
                        j,
                    ));
                }
            }
        }
    }
    None
}

pub fn c13_diff_suite(ctx: &Ctx, out: &mut ShardOut) {
    let mut rng = Rng::new(mix(ctx.seed, 0xC13D) ^ ctx.shard.wrapping_mul(0x9E37));
    let deadline = Instant::now() + std::time::Duration::from_secs(ctx.max_secs);
    let mut steps = 0u64;
    while steps < ctx.ops / 2 && Instant::now() < deadline {
        let kind = *rng.pick(&KINDS);
        let mut cfg = random_cfg(kind, &mut rng, ctx.thorough);
        if matches!(cfg.kh, HKind::RandA | HKind::RandB) {
            cfg.kh = HKind::Ident;
        }
        if cfg.kind == Kind::Wtlfu && cfg.ctor == 1 {
            cfg.ctor = 0;
        }
        let kt = if rng.chance(1, 5) { KeyType::Str } else { KeyType::Tracked };
        let uni = universe_for(&cfg, &mut rng);
        let n = rng.range(4, ctx.hist_len.max(6) as u64 / 2) as usize;
        let base = random_history(&cfg, &uni, n, &mut rng, Mix::Policy);
        let (inter, idx) = interleave(kind, &base, &uni, &mut rng);
        let seeds = [rng.next(), rng.next(), rng.next(), rng.next()];
        steps += (base.len() + inter.len()) as u64;
        out.cov.histories += 1;
        if let Some((rule, detail, step)) = run_c13_diff(&cfg, kt, &base, &inter, &idx, seeds, &mut out.cov) {
            // shrink the inserted calls first, then the base ops
            let mut cur = (inter.clone(), idx.clone());
            let mut i = 0;
            let mut budget = crate::engine::SHRINK_BUDGET.load(std::sync::atomic::Ordering::Relaxed);
            while i < cur.0.len() && budget > 0 {
                budget -= 1;
                let mut o = cur.0.clone();
                let mut ix = cur.1.clone();
                let removed = ix.remove(i);
                o.remove(i);
                if let Some(r) = removed {
                    for x in ix.iter_mut().flatten() {
                        if *x > r {
                            *x -= 1;
                        }
                    }
                }
                let b: Vec<Op> = o.iter().zip(ix.iter()).filter(|(_, x)| x.is_some()).map(|(o, _)| *o).collect();
                if run_c13_diff(&cfg, kt, &b, &o, &ix, seeds, &mut Cov::default()).map(|x| x.0 == rule).unwrap_or(false) {
                    cur = (o, ix);
                } else {
                    i += 1;
                }
            }
            let b: Vec<Op> = cur.0.iter().zip(cur.1.iter()).filter(|(_, x)| x.is_some()).map(|(o, _)| *o).collect();
            let (rule, detail, step) = run_c13_diff(&cfg, kt, &b, &cur.0, &cur.1, seeds, &mut Cov::default()).unwrap_or((rule, detail, step));
            let mut extra = BTreeMap::new();
            extra.insert("inserted".into(), cur.1.iter().map(|x| if x.is_none() { "1" } else { "0" }).collect::<Vec<_>>().join(""));
            out.add(mk_found("C13", &rule, kind, detail, &cfg, kt, &cur.0, extra, seeds, step));
        }
    }
}

/// replay entry points (extra parameters come from the replay file)
pub fn replay(prop: &str, cfg: &Cfg, kt: KeyType, ops: &[Op], seeds: [u64; 4], extra: &BTreeMap<String, String>) -> Option<(String, String, usize)> {
    let mut cov = Cov::default();
    match prop {
        "C16" => {
            let ca = extra.get("clone-at")?.parse().ok()?;
            let fa = extra.get("fork-at")?.parse().ok()?;
            let kc = extra.get("keep-clone")? == "1";
            run_clone(cfg, kt, ops, ca, fa, kc, seeds, &mut cov)
        }
        "C17" => {
            let sw: Vec<usize> = extra.get("swaps").map(|s| s.split('+').filter_map(|x| x.parse().ok()).collect()).unwrap_or_default();
            run_c17(cfg, kt, ops, seeds, &sw, &mut cov)
        }
        "C13" => {
            let ins = extra.get("inserted")?;
            let mut idx = vec![];
            let mut n = 0;
            for c in ins.chars() {
                if c == '1' {
                    idx.push(None);
                } else {
                    idx.push(Some(n));
                    n += 1;
                }
            }
            let base: Vec<Op> = ops.iter().zip(idx.iter()).filter(|(_, x)| x.is_some()).map(|(o, _)| *o).collect();
            run_c13_diff(cfg, kt, &base, ops, &idx, seeds, &mut cov)
        }
        _ => None,
    }
}
