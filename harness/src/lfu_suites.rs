//! C11 (TinyLFU: lower bound, reset clock, comparators) and C20 (SampledLFU ledger):
//! exact / lower-bound reference models run in lock-step with the real objects.
use crate::engine::{Cov, Violation};
use crate::subject::{guarded, Cfg, DynKH, KeyType};
use crate::suites::{Ctx, Found, ShardOut};
use crate::track::{DynBH, HKind};
use crate::util::*;
use caches::lfu::{SampledLFU, TinyLFU, TinyLFUBuilder};
use std::collections::{BTreeMap, HashMap, HashSet};
use std::time::Instant;

fn found(prop: &str, rule: &str, sig_tail: &str, detail: String, script: String, step: usize) -> Found {
    let mut extra = BTreeMap::new();
    extra.insert("script".to_string(), script);
    Found {
        v: Violation {
            prop: prop.to_string(),
            rule: rule.to_string(),
            sig: format!("{}|{}|{}", prop, rule, sig_tail),
            detail,
            step,
        },
        cfg: Cfg::lru(1),
        kt: KeyType::Tracked,
        ops: vec![],
        universe: vec![],
        seeds: [0; 4],
        extra,
    }
}

// =======================================================================================
// C20 SampledLFU
// =======================================================================================

#[derive(Clone, Debug, PartialEq)]
pub enum SOp {
    IncH(u64, i64),
    IncK(u64, i64),
    UpdH(u64, i64),
    UpdK(u64, i64),
    RemH(u64),
    RemK(u64),
    Clear,
    Max(i64),
    Fill(Vec<(u64, i64)>),
}

impl SOp {
    fn name(&self) -> &'static str {
        match self {
            SOp::IncH(..) => "increment_hashed_key",
            SOp::IncK(..) => "increment",
            SOp::UpdH(..) => "update_hashed_key",
            SOp::UpdK(..) => "update",
            SOp::RemH(_) => "remove_hashed_key",
            SOp::RemK(_) => "remove",
            SOp::Clear => "clear",
            SOp::Max(_) => "update_max_cost",
            SOp::Fill(_) => "fill_sample",
        }
    }
    fn text(&self) -> String {
        match self {
            SOp::IncH(h, c) => format!("inch:{}:{}", h, c),
            SOp::IncK(h, c) => format!("inck:{}:{}", h, c),
            SOp::UpdH(h, c) => format!("updh:{}:{}", h, c),
            SOp::UpdK(h, c) => format!("updk:{}:{}", h, c),
            SOp::RemH(h) => format!("remh:{}", h),
            SOp::RemK(h) => format!("remk:{}", h),
            SOp::Clear => "clear".into(),
            SOp::Max(m) => format!("max:{}", m),
            SOp::Fill(v) => format!(
                "fill:{}",
                v.iter().map(|(k, c)| format!("{}={}", k, c)).collect::<Vec<_>>().join("+")
            ),
        }
    }
    fn parse(s: &str) -> Option<SOp> {
        let p: Vec<&str> = s.split(':').collect();
        let u = |i: usize| -> Option<u64> { p.get(i)?.parse().ok() };
        let c = |i: usize| -> Option<i64> { p.get(i)?.parse().ok() };
        Some(match p[0] {
            "inch" => SOp::IncH(u(1)?, c(2)?),
            "inck" => SOp::IncK(u(1)?, c(2)?),
            "updh" => SOp::UpdH(u(1)?, c(2)?),
            "updk" => SOp::UpdK(u(1)?, c(2)?),
            "remh" => SOp::RemH(u(1)?),
            "remk" => SOp::RemK(u(1)?),
            "clear" => SOp::Clear,
            "max" => SOp::Max(c(1)?),
            "fill" => {
                let mut v = vec![];
                if let Some(body) = p.get(1) {
                    for it in body.split('+').filter(|x| !x.is_empty()) {
                        let (a, b) = it.split_once('=')?;
                        v.push((a.parse().ok()?, b.parse().ok()?));
                    }
                }
                SOp::Fill(v)
            }
            _ => return None,
        })
    }
}

pub struct SScript {
    pub max_cost: i64,
    pub samples: usize,
    pub ctor: u8,
    pub ops: Vec<SOp>,
}
impl SScript {
    fn text(&self) -> String {
        format!(
            "{};{};{};{}",
            self.max_cost,
            self.samples,
            self.ctor,
            self.ops.iter().map(|o| o.text()).collect::<Vec<_>>().join(";")
        )
    }
    pub fn parse(s: &str) -> Option<SScript> {
        let mut it = s.split(';');
        let max_cost = it.next()?.parse().ok()?;
        let samples = it.next()?.parse().ok()?;
        let ctor = it.next()?.parse().ok()?;
        let ops = it.filter(|x| !x.is_empty()).map(SOp::parse).collect::<Option<Vec<_>>>()?;
        Some(SScript { max_cost, samples, ctor, ops })
    }
}

/// the operations of the tracker behind one object-safe face, so that every constructor
/// family (default / custom key hasher x default / custom index hasher) is exercised
trait Sampled {
    fn inc_h(&mut self, h: u64, c: i64);
    fn inc_k(&mut self, k: u64, c: i64);
    fn upd_h(&mut self, h: u64, c: i64) -> bool;
    fn upd_k(&mut self, k: u64, c: i64) -> bool;
    fn rem_h(&mut self, h: u64) -> Option<i64>;
    fn rem_k(&mut self, k: u64) -> Option<i64>;
    fn clear_(&mut self);
    fn set_max(&self, m: i64);
    fn max(&self) -> i64;
    fn room(&self, c: i64) -> i64;
    fn fill(&mut self, v: Vec<(u64, i64)>) -> Vec<(u64, i64)>;
    fn hk(&self, k: u64) -> u64;
}
impl<KH: caches::lfu::KeyHasher<u64>, S: std::hash::BuildHasher> Sampled for SampledLFU<u64, KH, S> {
    fn inc_h(&mut self, h: u64, c: i64) {
        self.increment_hashed_key(h, c)
    }
    fn inc_k(&mut self, k: u64, c: i64) {
        self.increment(&k, c)
    }
    fn upd_h(&mut self, h: u64, c: i64) -> bool {
        self.update_hashed_key(h, c)
    }
    fn upd_k(&mut self, k: u64, c: i64) -> bool {
        self.update(&k, c)
    }
    fn rem_h(&mut self, h: u64) -> Option<i64> {
        self.remove_hashed_key(h)
    }
    fn rem_k(&mut self, k: u64) -> Option<i64> {
        self.remove(&k)
    }
    fn clear_(&mut self) {
        self.clear()
    }
    fn set_max(&self, m: i64) {
        self.update_max_cost(m)
    }
    fn max(&self) -> i64 {
        self.get_max_cost()
    }
    fn room(&self, c: i64) -> i64 {
        self.room_left(c)
    }
    fn fill(&mut self, v: Vec<(u64, i64)>) -> Vec<(u64, i64)> {
        self.fill_sample(v)
    }
    fn hk(&self, k: u64) -> u64 {
        self.hash_key(&k)
    }
}

/// returns the tracker and the sample size it was really built with (some constructors fix 5)
fn mk_sampled(sc: &SScript) -> (Box<dyn Sampled>, usize) {
    let kh = || DynKH(DynBH::new(HKind::Ident));
    let bh = || DynBH::new(HKind::Zero);
    match sc.ctor % 8 {
        0 => (Box::new(SampledLFU::with_samples_and_key_hasher_and_hasher(sc.max_cost, sc.samples, kh(), DynBH::new(HKind::Fnv))), sc.samples),
        1 => (Box::new(SampledLFU::with_samples_and_key_hasher_and_hasher(sc.max_cost, sc.samples, kh(), bh())), sc.samples),
        2 => (Box::new(SampledLFU::<u64>::new(sc.max_cost)), 5),
        3 => (Box::new(SampledLFU::<u64>::with_samples(sc.max_cost, sc.samples)), sc.samples),
        4 => (Box::new(SampledLFU::<u64, _, DynBH>::with_hasher(sc.max_cost, bh())), 5),
        5 => (Box::new(SampledLFU::<u64, _, DynBH>::with_samples_and_hasher(sc.max_cost, sc.samples, bh())), sc.samples),
        6 => (Box::new(SampledLFU::<u64, DynKH>::with_key_hasher(sc.max_cost, kh())), 5),
        _ => (Box::new(SampledLFU::<u64, DynKH>::with_samples_and_key_hasher(sc.max_cost, sc.samples, kh())), sc.samples),
    }
}

/// run one script; returns (violation, monitored ops)
pub fn run_sampled(sc: &SScript, cov: &mut Cov) -> Option<(String, String, usize)> {
    let (mut real, samples) = mk_sampled(sc);
    let sc_samples = samples;
    let mut model: HashMap<u64, i64> = HashMap::new();
    let mut max = sc.max_cost;
    let probes = [0i64, 1, -7, 1000, 1 << 33];
    let nops = sc.ops.len();
    let mut run_sum: i64 = 0;
    for (i, op) in sc.ops.iter().enumerate() {
        let was = |k: &u64| model.contains_key(k);
        // key-API operations address the entry of the key's hash
        let hk = |real: &dyn Sampled, op: &SOp| -> Option<u64> {
            match op {
                SOp::IncH(h, _) | SOp::UpdH(h, _) | SOp::RemH(h) => Some(*h),
                SOp::IncK(k, _) | SOp::UpdK(k, _) | SOp::RemK(k) => Some(real.hk(*k)),
                _ => None,
            }
        };
        let target = hk(real.as_ref(), op);
        let pre_class = match op {
            SOp::Fill(v) => {
                if v.len() > sc_samples { "input>samples" } else if v.len() == sc_samples { "input=samples" } else if v.len() + model.len() >= sc_samples { "input<samples,enough" } else { "input<samples,short" }
            }
            _ => match target {
                Some(h) => if was(&h) { "tracked" } else { "untracked" },
                None => "-",
            },
        };
        let r: Result<Option<String>, String> = guarded(|| {
            match op {
                SOp::IncH(h, c) => {
                    real.inc_h(*h, *c);
                    run_sum += *c - model.insert(*h, *c).unwrap_or(0);
                }
                SOp::IncK(k, c) => {
                    real.inc_k(*k, *c);
                    run_sum += *c - model.insert(target.unwrap(), *c).unwrap_or(0);
                }
                SOp::UpdH(_, c) | SOp::UpdK(_, c) => {
                    let h = &target.unwrap();
                    let got = if let SOp::UpdH(hh, _) = op { real.upd_h(*hh, *c) } else if let SOp::UpdK(kk, _) = op { real.upd_k(*kk, *c) } else { false };
                    let exp = model.contains_key(h);
                    if exp {
                        run_sum += *c - model.insert(*h, *c).unwrap_or(0);
                    }
                    if got != exp {
                        return Some(format!("{} returned {} but the key was {}", op.name(), got, if exp { "tracked" } else { "not tracked" }));
                    }
                }
                SOp::RemH(_) | SOp::RemK(_) => {
                    let h = &target.unwrap();
                    let got = if let SOp::RemH(hh) = op { real.rem_h(*hh) } else if let SOp::RemK(kk) = op { real.rem_k(*kk) } else { None };
                    let exp = model.remove(h);
                    run_sum -= exp.unwrap_or(0);
                    if got != exp {
                        return Some(format!("{} returned {:?}, the recorded cost was {:?}", op.name(), got, exp));
                    }
                }
                SOp::Clear => {
                    real.clear_();
                    model.clear();
                    run_sum = 0;
                }
                SOp::Max(m) => {
                    real.set_max(*m);
                    max = *m;
                }
                SOp::Fill(input) => {
                    let out = real.fill(input.clone());
                    if out.len() < input.len() || out[..input.len()] != input[..] {
                        return Some(format!("fill_sample did not return its input unchanged as a prefix: in {:?} out {:?}", input, out));
                    }
                    let app = &out[input.len()..];
                    if input.len() >= sc_samples {
                        if !app.is_empty() {
                            return Some(format!("fill_sample appended {:?} although the input already has {} >= {} pairs", app, input.len(), sc_samples));
                        }
                    } else {
                        let mut seen = HashSet::new();
                        for (k, c) in app {
                            match model.get(k) {
                                None => return Some(format!("fill_sample appended ({},{}) but key {} is not tracked", k, c, k)),
                                Some(mc) if mc != c => return Some(format!("fill_sample appended ({},{}) but the recorded cost of {} is {}", k, c, k, mc)),
                                _ => {}
                            }
                            if !seen.insert(*k) {
                                return Some(format!("fill_sample appended key {} twice", k));
                            }
                        }
                        let exp_len = sc_samples.min(input.len() + model.len());
                        if out.len() != exp_len {
                            return Some(format!("fill_sample returned {} pairs, expected min(samples={}, input {} + tracked {}) = {}", out.len(), sc_samples, input.len(), model.len(), exp_len));
                        }
                    }
                }
            }
            // ledger (the sum is recomputed from the model every 64th op and at the end, and
            // carried incrementally in between, to keep long scripts linear)
            let sum: i64 = if i % 64 == 0 || i + 1 == nops || model.len() < 64 { model.values().sum() } else { run_sum };
            if real.max() != max {
                return Some(format!("get_max_cost() = {}, last update_max_cost/constructor value {}", real.max(), max));
            }
            for c in probes {
                let got = real.room(c);
                let exp = max - sum - c;
                if got != exp {
                    return Some(format!("room_left({}) = {} but max_cost {} - recorded costs {} - {} = {}", c, got, max, sum, c, exp));
                }
            }
            None
        });
        cov.monitored += 1;
        cov.steps += 1;
        cov.ops.bump(op.name());
        cov.triples.insert(format!("{}|sampled|{}|samples{}|ctor{}", pre_class, op.name(), sc_samples.min(6), sc.ctor % 8));
        match r {
            Err(p) => return Some(("panic".into(), format!("{} panicked: {}", op.text(), p), i)),
            Ok(Some(d)) => return Some((format!("ledger-{}", op.name()), format!("after {} ({}): {}", op.text(), pre_class, d), i)),
            Ok(None) => {}
        }
    }
    None
}

fn gen_sampled(rng: &mut Rng) -> SScript {
    let samples = *rng.pick(&[0usize, 1, 2, 5, 5, 100]);
    let nk = rng.range(1, 6);
    let n = rng.range(3, 40) as usize;
    let mut ops = vec![];
    let cost = |rng: &mut Rng| -> i64 {
        match rng.below(10) {
            0 => 0,
            1 => -(rng.below(50) as i64),
            2 => 1 << 40,
            3 => -(1 << 40),
            _ => rng.below(100) as i64,
        }
    };
    for _ in 0..n {
        let h = rng.below(nk);
        let op = match rng.below(20) {
            0..=4 => SOp::IncH(h, cost(rng)),
            5..=7 => SOp::IncK(h, cost(rng)),
            8..=9 => SOp::UpdH(h, cost(rng)),
            10 => SOp::UpdK(h, cost(rng)),
            11..=12 => SOp::RemH(h),
            13 => SOp::RemK(h),
            14 => SOp::Clear,
            15 => SOp::Max(match rng.below(4) { 0 => 0, 1 => -5, _ => rng.below(1000) as i64 }),
            _ => {
                let l = rng.below(samples as u64 + 3).min(8) as usize;
                SOp::Fill((0..l).map(|j| (100 + j as u64, j as i64)).collect())
            }
        };
        ops.push(op);
    }
    SScript { max_cost: rng.below(1000) as i64, samples, ctor: rng.below(8) as u8, ops }
}

fn shrink_script<S, F: Fn(&S) -> usize, G: Fn(&S, usize) -> S, P: Fn(&S) -> bool>(s: S, len: F, without: G, fails: P) -> S {
    let mut cur = s;
    let mut i = 0;
    let mut budget = crate::engine::SHRINK_BUDGET.load(std::sync::atomic::Ordering::Relaxed);
    while i < len(&cur) && budget > 0 {
        let cand = without(&cur, i);
        budget -= 1;
        if fails(&cand) {
            cur = cand;
        } else {
            i += 1;
        }
    }
    cur
}

pub fn c20_suite(ctx: &Ctx) -> ShardOut {
    let mut out = ShardOut::default();
    let mut rng = Rng::new(mix(ctx.seed, 0xC20) ^ ctx.shard.wrapping_mul(0x9E37));
    let deadline = Instant::now() + std::time::Duration::from_secs(ctx.max_secs);
    // directed: the named defect and the boundaries
    let mut scripts = vec![
        SScript { max_cost: 100, samples: 5, ctor: 0, ops: vec![SOp::IncH(1, 5), SOp::IncH(1, 5), SOp::RemH(1), SOp::IncK(1, 7), SOp::IncH(1, 9), SOp::UpdK(1, 2), SOp::UpdH(2, 2), SOp::RemK(2), SOp::Clear] },
        SScript { max_cost: 10, samples: 2, ctor: 1, ops: vec![SOp::IncH(1, 1), SOp::IncH(2, 2), SOp::IncH(3, 3), SOp::Fill(vec![]), SOp::Fill(vec![(9, 9)]), SOp::Fill(vec![(9, 9), (8, 8)]), SOp::Fill(vec![(9, 9), (8, 8), (7, 7)]), SOp::Max(0), SOp::Max(-3)] },
        SScript { max_cost: 0, samples: 0, ctor: 2, ops: vec![SOp::Fill(vec![]), SOp::IncH(0, 0), SOp::Fill(vec![(1, 1)]), SOp::RemH(0), SOp::RemH(0)] },
    ];
    // long scripts: effects that need tens of thousands of mutations or of tracked keys
    if ctx.shard == 0 && !cfg!(miri) {
        let mut a = vec![];
        for i in 0..70_000u64 {
            a.push(SOp::IncH(i, (i % 7) as i64 + 1));
        }
        for i in 0..200u64 {
            a.push(SOp::IncH(i * 31, 5));
            a.push(SOp::UpdH(i * 17, 3));
            a.push(SOp::RemH(i * 13));
        }
        a.push(SOp::Fill(vec![(1, 1)]));
        let mut b = vec![];
        for i in 0..60_000u64 {
            b.push(SOp::IncK(i, 2));
        }
        for i in 3..60_000u64 {
            b.push(SOp::RemK(i));
        }
        b.push(SOp::Clear);
        b.extend([SOp::UpdH(0, 9), SOp::RemH(1), SOp::Fill(vec![]), SOp::IncH(5, 5), SOp::RemK(2), SOp::Fill(vec![(9, 9)])]);
        scripts.push(SScript { max_cost: 1 << 40, samples: 5, ctor: 0, ops: a });
        scripts.push(SScript { max_cost: 1 << 40, samples: 7, ctor: 7, ops: b });
    }
    while (out.cov.monitored as u64) < ctx.ops && Instant::now() < deadline {
        let sc = scripts.pop().unwrap_or_else(|| gen_sampled(&mut rng));
        out.cov.histories += 1;
        if out.cov.samples.len() < 3 && sc.ops.len() < 100 {
            out.cov.samples.push(format!("SampledLFU max_cost={} samples={}: {}", sc.max_cost, sc.samples, sc.ops.iter().take(14).map(|o| o.text()).collect::<Vec<_>>().join("; ")));
        }
        if let Some((rule, _, _)) = run_sampled(&sc, &mut out.cov) {
            let small = shrink_script(
                sc,
                |s: &SScript| s.ops.len(),
                |s: &SScript, i| {
                    let mut o = s.ops.clone();
                    o.remove(i);
                    SScript { max_cost: s.max_cost, samples: s.samples, ctor: s.ctor, ops: o }
                },
                |s| run_sampled(s, &mut Cov::default()).map(|x| x.0 == rule).unwrap_or(false),
            );
            let (rule, detail, step) = run_sampled(&small, &mut Cov::default()).unwrap();
            out.add(found("C20", &rule, "sampled", detail, small.text(), step));
        }
    }
    out
}

// =======================================================================================
// C11 TinyLFU
// =======================================================================================

#[derive(Clone, Debug, PartialEq)]
pub enum TOp {
    IncH(u64),
    IncK(u64),
    IncHs(Vec<u64>),
    IncKs(Vec<u64>),
    TryReset,
    Clear,
    Cmp(u64, u64),
}
impl TOp {
    fn name(&self) -> &'static str {
        match self {
            TOp::IncH(_) => "increment_hashed_key",
            TOp::IncK(_) => "increment",
            TOp::IncHs(_) => "increment_hashed_keys",
            TOp::IncKs(_) => "increment_keys",
            TOp::TryReset => "try_reset",
            TOp::Clear => "clear",
            TOp::Cmp(..) => "compare",
        }
    }
    fn text(&self) -> String {
        let l = |v: &Vec<u64>| v.iter().map(|x| x.to_string()).collect::<Vec<_>>().join("+");
        match self {
            TOp::IncH(h) => format!("inch:{}", h),
            TOp::IncK(h) => format!("inck:{}", h),
            TOp::IncHs(v) => format!("inchs:{}", l(v)),
            TOp::IncKs(v) => format!("incks:{}", l(v)),
            TOp::TryReset => "tryreset".into(),
            TOp::Clear => "clear".into(),
            TOp::Cmp(a, b) => format!("cmp:{}:{}", a, b),
        }
    }
    fn parse(s: &str) -> Option<TOp> {
        let p: Vec<&str> = s.split(':').collect();
        let u = |i: usize| -> Option<u64> { p.get(i)?.parse().ok() };
        let l = |i: usize| -> Option<Vec<u64>> { p.get(i)?.split('+').filter(|x| !x.is_empty()).map(|x| x.parse().ok()).collect() };
        Some(match p[0] {
            "inch" => TOp::IncH(u(1)?),
            "inck" => TOp::IncK(u(1)?),
            "inchs" => TOp::IncHs(l(1)?),
            "incks" => TOp::IncKs(l(1)?),
            "tryreset" => TOp::TryReset,
            "clear" => TOp::Clear,
            "cmp" => TOp::Cmp(u(1)?, u(2)?),
            _ => return None,
        })
    }
}

pub struct TScript {
    pub size: usize,
    pub samples: usize,
    pub fpr_bits: u64,
    /// 0: builder with identity key hasher; 1: TinyLFU::new (default key hasher, raw-hash API
    /// only); 2: builder with constant key hasher
    pub ctor: u8,
    pub seeds: [u64; 4],
    pub ops: Vec<TOp>,
}
impl TScript {
    fn text(&self) -> String {
        format!(
            "{};{};{};{};{};{}",
            self.size,
            self.samples,
            self.fpr_bits,
            self.ctor,
            self.seeds.iter().map(|s| s.to_string()).collect::<Vec<_>>().join(","),
            self.ops.iter().map(|o| o.text()).collect::<Vec<_>>().join(";")
        )
    }
    pub fn parse(s: &str) -> Option<TScript> {
        let mut it = s.split(';');
        let size = it.next()?.parse().ok()?;
        let samples = it.next()?.parse().ok()?;
        let fpr_bits = it.next()?.parse().ok()?;
        let ctor = it.next()?.parse().ok()?;
        let sv: Vec<u64> = it.next()?.split(',').filter_map(|x| x.parse().ok()).collect();
        let ops = it.filter(|x| !x.is_empty()).map(TOp::parse).collect::<Option<Vec<_>>>()?;
        Some(TScript { size, samples, fpr_bits, ctor, seeds: [sv[0], sv[1], sv[2], sv[3]], ops })
    }
}

/// per-hash lower-bound model: doorkeeper bit + saturating counter, halved on reset
#[derive(Default, Clone)]
struct TModel {
    bit: HashMap<u64, bool>,
    ctr: HashMap<u64, u8>,
    w: usize,
    recorded_since_reset: HashSet<u64>,
    ever: HashSet<u64>,
}
impl TModel {
    fn val(&self, h: u64) -> u64 {
        (*self.bit.get(&h).unwrap_or(&false) as u64) + (*self.ctr.get(&h).unwrap_or(&0) as u64)
    }
    /// returns true when this access triggers a reset
    fn access(&mut self, h: u64, samples: usize) -> bool {
        let b = self.bit.entry(h).or_insert(false);
        if !*b {
            *b = true;
        } else {
            let c = self.ctr.entry(h).or_insert(0);
            if *c < 15 {
                *c += 1;
            }
        }
        self.recorded_since_reset.insert(h);
        self.ever.insert(h);
        self.tick(samples)
    }
    fn tick(&mut self, samples: usize) -> bool {
        self.w += 1;
        if self.w >= samples {
            self.w = 0;
            self.bit.clear();
            for c in self.ctr.values_mut() {
                *c /= 2;
            }
            self.recorded_since_reset.clear();
            true
        } else {
            false
        }
    }
    fn clear(&mut self) {
        *self = TModel::default();
    }
}

trait Tiny {
    fn inc_h(&mut self, h: u64);
    fn inc_k(&mut self, k: u64);
    fn inc_hs(&mut self, v: &[u64]);
    fn inc_ks(&mut self, v: &[u64]);
    fn try_reset(&mut self);
    fn clear(&mut self);
    fn est_h(&self, h: u64) -> u64;
    fn est_k(&self, k: u64) -> u64;
    fn has_h(&self, h: u64) -> bool;
    fn has_k(&self, k: u64) -> bool;
    fn cmps(&self, a: u64, b: u64) -> [bool; 5];
    fn w(&self) -> usize;
    fn key_hash(&self, k: u64) -> u64;
}
impl<KH: caches::lfu::KeyHasher<u64>> Tiny for TinyLFU<u64, KH> {
    fn inc_h(&mut self, h: u64) {
        self.increment_hashed_key(h)
    }
    fn inc_k(&mut self, k: u64) {
        self.increment(&k)
    }
    fn inc_hs(&mut self, v: &[u64]) {
        self.increment_hashed_keys(v)
    }
    fn inc_ks(&mut self, v: &[u64]) {
        let r: Vec<&u64> = v.iter().collect();
        self.increment_keys(&r)
    }
    fn try_reset(&mut self) {
        TinyLFU::try_reset(self)
    }
    fn clear(&mut self) {
        TinyLFU::clear(self)
    }
    fn est_h(&self, h: u64) -> u64 {
        self.estimate_hashed_key(h)
    }
    fn est_k(&self, k: u64) -> u64 {
        self.estimate(&k)
    }
    fn has_h(&self, h: u64) -> bool {
        self.contains_hash(h)
    }
    fn has_k(&self, k: u64) -> bool {
        self.contains(&k)
    }
    fn cmps(&self, a: u64, b: u64) -> [bool; 5] {
        [self.lt(&a, &b), self.le(&a, &b), self.gt(&a, &b), self.ge(&a, &b), self.eq(&a, &b)]
    }
    fn w(&self) -> usize {
        self.verif_digest().0
    }
    fn key_hash(&self, k: u64) -> u64 {
        self.hash_key(&k)
    }
}

fn mk_tiny(sc: &TScript) -> Result<Box<dyn Tiny>, String> {
    let fpr = f64::from_bits(sc.fpr_bits);
    match sc.ctor {
        1 => {
            let mut t = TinyLFU::<u64>::new(sc.size, sc.samples, fpr).map_err(|e| format!("{:?}", e))?;
            t.verif_reseed(sc.seeds);
            Ok(Box::new(t))
        }
        3 => {
            // the other builder entry point: new(size, samples) + set_key_hasher
            let mut t = TinyLFUBuilder::<u64>::new(sc.size, sc.samples)
                .set_key_hasher(DynKH(DynBH::new(HKind::Ident)))
                .set_false_positive_ratio(fpr)
                .finalize()
                .map_err(|e| format!("{:?}", e))?;
            t.verif_reseed(sc.seeds);
            Ok(Box::new(t))
        }
        c => {
            let kh = DynKH(DynBH::new(if c == 2 { HKind::Zero } else { HKind::Ident }));
            let mut t = TinyLFUBuilder::<u64, DynKH>::with_hasher(kh)
                .set_size(sc.size)
                .set_samples(sc.samples)
                .set_false_positive_ratio(fpr)
                .finalize()
                .map_err(|e| format!("{:?}", e))?;
            t.verif_reseed(sc.seeds);
            Ok(Box::new(t))
        }
    }
}

pub fn run_tiny(sc: &TScript, cov: &mut Cov) -> Option<(String, String, usize)> {
    let mut real = match guarded(|| mk_tiny(sc)) {
        Err(p) => return Some(("panic".into(), format!("constructor panicked: {}", p), 0)),
        Ok(Err(_)) => return None, // rejected configuration: judged by C05
        Ok(Ok(t)) => t,
    };
    let mut m = TModel::default();
    // hashes the script mentions, through the key hasher for the key API
    let mut uni: Vec<u64> = vec![];
    let keyed = sc.ctor != 1;
    let hk = |real: &dyn Tiny, k: u64| -> u64 { real.key_hash(k) };
    for op in &sc.ops {
        match op {
            TOp::IncH(h) => uni.push(*h),
            TOp::IncK(k) => uni.push(hk(real.as_ref(), *k)),
            TOp::IncHs(v) => uni.extend(v.iter().copied()),
            TOp::IncKs(v) => uni.extend(v.iter().map(|k| hk(real.as_ref(), *k))),
            TOp::Cmp(a, b) => {
                uni.push(hk(real.as_ref(), *a));
                uni.push(hk(real.as_ref(), *b));
            }
            _ => {}
        }
    }
    uni.sort();
    uni.dedup();
    for (i, op) in sc.ops.iter().enumerate() {
        let mut reset_expected = false;
        let r: Result<Option<(String, String)>, String> = guarded(|| {
            match op {
                TOp::IncH(h) => {
                    real.inc_h(*h);
                    reset_expected = m.access(*h, sc.samples);
                }
                TOp::IncK(k) => {
                    real.inc_k(*k);
                    reset_expected = m.access(hk(real.as_ref(), *k), sc.samples);
                }
                TOp::IncHs(v) => {
                    real.inc_hs(v);
                    for h in v {
                        reset_expected |= m.access(*h, sc.samples);
                    }
                }
                TOp::IncKs(v) => {
                    real.inc_ks(v);
                    for k in v {
                        reset_expected |= m.access(hk(real.as_ref(), *k), sc.samples);
                    }
                }
                TOp::TryReset => {
                    real.try_reset();
                    reset_expected = m.tick(sc.samples);
                }
                TOp::Clear => {
                    real.clear();
                    m.clear();
                    for h in &uni {
                        if real.est_h(*h) != 0 {
                            return Some(("estimate-after-clear".into(), format!("estimate of hash {} is {} right after clear", h, real.est_h(*h))));
                        }
                        if real.has_h(*h) {
                            return Some(("estimate-after-clear".into(), format!("doorkeeper still contains hash {} right after clear", h)));
                        }
                    }
                }
                TOp::Cmp(a, b) => {
                    if keyed {
                        let (ea, eb) = (real.est_k(*a), real.est_k(*b));
                        let got = real.cmps(*a, *b);
                        let exp = [ea < eb, ea <= eb, ea > eb, ea >= eb, ea == eb];
                        if got != exp {
                            return Some(("comparators".into(), format!("estimates are {} and {} but lt/le/gt/ge/eq = {:?}", ea, eb, got)));
                        }
                    }
                }
            }
            // (ii) reset clock, observed through the doorkeeper (how the implementation counts
            // internally is its own business: a late reset shows as "reset-missed" below, an
            // early one as a doorkeeper false negative or an estimate under the aged count)
            for h in &m.recorded_since_reset {
                if !real.has_h(*h) {
                    return Some(("doorkeeper-false-negative".into(), format!("hash {} was recorded since the last reset but the doorkeeper does not contain it (reset expected now: {})", h, reset_expected)));
                }
            }
            if reset_expected && m.recorded_since_reset.is_empty() {
                for h in &uni {
                    if real.has_h(*h) {
                        return Some(("reset-missed".into(), format!("the sample window is complete (samples {}) but the doorkeeper still contains hash {}", sc.samples, h)));
                    }
                }
            }
            // (i) lower bound / upper bound / exactness
            for h in &uni {
                let e = real.est_h(*h);
                let lb = m.val(*h);
                if e < lb {
                    return Some(("under-count".into(), format!("estimate of hash {} is {} but its exact aged access count is {}", h, e, lb)));
                }
                if e > 16 {
                    return Some(("over-16".into(), format!("estimate of hash {} is {}", h, e)));
                }
                if m.ever.len() == 1 && m.ever.contains(h) && e != lb {
                    return Some(("not-exact-single-key".into(), format!("only hash {} was ever recorded; estimate {} but exact aged count {}", h, e, lb)));
                }
                if keyed && (sc.ctor == 0 || sc.ctor == 3) && real.est_k(*h) != e {
                    return Some(("key-vs-hash-api".into(), format!("estimate(&{}) = {} but estimate_hashed_key({}) = {} under the identity key hasher", h, real.est_k(*h), h, e)));
                }
            }
            None
        });
        cov.monitored += 1;
        cov.steps += 1;
        cov.ops.bump(op.name());
        let hot = uni.iter().map(|h| m.val(*h)).max().unwrap_or(0);
        cov.triples.insert(format!(
            "{}|tinylfu|{}|ctor{}|hot{}|w{}|{}",
            if m.ever.is_empty() { "empty" } else { "used" },
            op.name(),
            sc.ctor,
            if hot >= 16 { "16" } else if hot >= 8 { "8+" } else if hot >= 2 { "2+" } else { "0-1" },
            if sc.samples <= 1 { "1" } else if m.w + 1 == sc.samples { "last" } else { "mid" },
            if reset_expected { "reset" } else { "noreset" }
        ));
        if reset_expected {
            cov.must.bump("reset-observed");
        }
        if hot >= 16 {
            cov.must.bump("saturation-16");
        }
        match r {
            Err(p) => return Some(("panic".into(), format!("{} panicked: {}", op.text(), p), i)),
            Ok(Some((rule, d))) => return Some((rule, format!("after {}: {}", op.text(), d), i)),
            Ok(None) => {}
        }
    }
    None
}

fn gen_tiny(rng: &mut Rng) -> TScript {
    let size = *rng.pick(&[1usize, 2, 3, 4, 8, 64, 1000]);
    let samples = *rng.pick(&[1usize, 2, 3, 4, 10, 100, 40]);
    let fpr: f64 = *rng.pick(&[1e-6, 0.01, 0.5, 0.99]);
    let ctor = *rng.pick(&[0u8, 0, 3, 1, 2]);
    let special = [0u64, 1, (1 << 32) - 1, 1 << 32, (1 << 32) + 1, 1 << 63, u64::MAX, u64::MAX - 1];
    let mask = (size as u64).next_power_of_two().max(2);
    let nk = rng.range(1, 5) as usize;
    let mut pool: Vec<u64> = vec![];
    for _ in 0..nk {
        pool.push(match rng.below(4) {
            0 => *rng.pick(&special),
            1 => rng.next(),
            // hashes equal modulo the sketch mask
            2 => 5 + mask * rng.below(4),
            _ => rng.below(8),
        });
    }
    let n = rng.range(4, 80) as usize;
    let hot = pool[0];
    let mut ops = vec![];
    for _ in 0..n {
        let h = if rng.chance(1, 2) { hot } else { *rng.pick(&pool) };
        let op = match rng.below(20) {
            0..=8 => TOp::IncH(h),
            9..=12 => {
                if ctor == 1 { TOp::IncH(h) } else { TOp::IncK(h) }
            }
            13 => TOp::IncHs((0..rng.range(0, 4)).map(|_| *rng.pick(&pool)).collect()),
            14 => {
                if ctor == 1 { TOp::TryReset } else { TOp::IncKs((0..rng.range(0, 4)).map(|_| *rng.pick(&pool)).collect()) }
            }
            15..=16 => TOp::TryReset,
            17 => TOp::Clear,
            _ => TOp::Cmp(*rng.pick(&pool), *rng.pick(&pool)),
        };
        ops.push(op);
    }
    TScript { size, samples, fpr_bits: fpr.to_bits(), ctor, seeds: [rng.next(), rng.next(), rng.next(), rng.next()], ops }
}

/// Large sketches: every counter position of every row is touched (hashes 0..2*width), so a
/// width that is not a power of two, or rows shorter than the mask, cannot hide behind the
/// 1-in-65536 chance of a random hash landing on the bad position.
pub fn large_sketch_sweep(prop: &str, out: &mut ShardOut, sizes: &[usize]) {
    for &size in sizes {
        let r = guarded(|| {
            let mut t = TinyLFU::<u64>::new(size, 20_000_000, 0.01).map_err(|e| format!("{:?}", e))?;
            let width = (size as u64).next_power_of_two().max(2);
            let mut worst: Option<String> = None;
            for h in 0..(2 * width) {
                t.increment_hashed_key(h);
                t.increment_hashed_key(h);
                let e = t.estimate_hashed_key(h);
                if !(2..=16).contains(&e) && worst.is_none() {
                    worst = Some(format!("size {}: hash {} recorded twice, estimate {}", size, h, e));
                }
            }
            Ok::<_, String>(worst)
        });
        out.cov.monitored += 1;
        out.cov.steps += 4 * (size as u64).next_power_of_two();
        out.cov.triples.insert(format!("sweep|tinylfu|size{}", size));
        let d = match r {
            Err(p) => Some(("panic", format!("TinyLFU::new({}, ..): sweeping all counter positions panicked: {}", size, p))),
            Ok(Err(_)) => None,
            Ok(Ok(Some(w))) => Some(("under-count", w)),
            Ok(Ok(None)) => None,
        };
        if let Some((rule, d)) = d {
            out.add(found(prop, rule, &format!("tinylfu|sweep{}", size), d, String::new(), 0));
        }
    }
}

pub fn c11_suite(ctx: &Ctx) -> ShardOut {
    let mut out = ShardOut::default();
    if ctx.shard == 0 && !cfg!(miri) {
        large_sketch_sweep("C11", &mut out, &[65537, 131073, (1 << 18) + 1, 70000, 1 << 17]);
    }
    let mut rng = Rng::new(mix(ctx.seed, 0xC11) ^ ctx.shard.wrapping_mul(0x9E37));
    let deadline = Instant::now() + std::time::Duration::from_secs(ctx.max_secs);
    let s0 = [1u64, 2, 3, 4];
    let f = 0.01f64.to_bits();
    let mut scripts = vec![
        // comparators right after a reset (counters survive, doorkeeper is empty)
        TScript { size: 4, samples: 4, fpr_bits: f, ctor: 0, seeds: s0, ops: vec![TOp::IncK(1), TOp::IncK(1), TOp::IncK(1), TOp::IncK(1), TOp::Cmp(1, 2), TOp::Cmp(2, 1), TOp::IncK(2), TOp::Cmp(1, 2), TOp::Cmp(2, 1)] },
        // saturation at 15 + 1
        TScript { size: 8, samples: 100, fpr_bits: f, ctor: 0, seeds: s0, ops: (0..40).map(|_| TOp::IncH(7)).chain([TOp::Cmp(7, 8), TOp::TryReset, TOp::Clear, TOp::IncH(7)]).collect() },
        // width 1, huge hashes (both sketches), samples 1
        TScript { size: 1, samples: 1, fpr_bits: f, ctor: 0, seeds: s0, ops: vec![TOp::IncH(u64::MAX), TOp::IncH(u64::MAX), TOp::IncH(0), TOp::TryReset, TOp::IncK(u64::MAX)] },
        TScript { size: 1, samples: 3, fpr_bits: 0.5f64.to_bits(), ctor: 1, seeds: s0, ops: vec![TOp::IncH(u64::MAX), TOp::IncH(u64::MAX), TOp::IncH(1 << 63), TOp::IncHs(vec![1, 1, 1, u64::MAX])] },
        // odd counters halved
        TScript { size: 16, samples: 6, fpr_bits: f, ctor: 0, seeds: s0, ops: vec![TOp::IncH(3), TOp::IncH(3), TOp::IncH(3), TOp::IncH(3), TOp::TryReset, TOp::TryReset, TOp::IncH(3), TOp::IncH(3)] },
    ];
    while (out.cov.monitored as u64) < ctx.ops && Instant::now() < deadline {
        let sc = scripts.pop().unwrap_or_else(|| gen_tiny(&mut rng));
        out.cov.histories += 1;
        if out.cov.samples.len() < 3 {
            out.cov.samples.push(format!("TinyLFU size={} samples={} fpr={} ctor={}: {}", sc.size, sc.samples, f64::from_bits(sc.fpr_bits), sc.ctor, sc.ops.iter().take(16).map(|o| o.text()).collect::<Vec<_>>().join("; ")));
        }
        if let Some((rule, _, _)) = run_tiny(&sc, &mut out.cov) {
            let small = shrink_script(
                sc,
                |s: &TScript| s.ops.len(),
                |s: &TScript, i| {
                    let mut o = s.ops.clone();
                    o.remove(i);
                    TScript { size: s.size, samples: s.samples, fpr_bits: s.fpr_bits, ctor: s.ctor, seeds: s.seeds, ops: o }
                },
                |s| run_tiny(s, &mut Cov::default()).map(|x| x.0 == rule).unwrap_or(false),
            );
            let (rule, detail, step) = run_tiny(&small, &mut Cov::default()).unwrap();
            let tail = format!("tinylfu|ctor{}", small.ctor);
            out.add(found("C11", &rule, &tail, format!("size={} samples={} fpr={}: {}", small.size, small.samples, f64::from_bits(small.fpr_bits), detail), small.text(), step));
        }
    }
    out
}

pub fn replay_script(prop: &str, script: &str) -> Option<(String, String, usize)> {
    match prop {
        "C20" => run_sampled(&SScript::parse(script)?, &mut Cov::default()),
        "C11" => run_tiny(&TScript::parse(script)?, &mut Cov::default()),
        _ => None,
    }
}
