//! The generic layer: executes operations of the op language on the real caches, renders
//! results to owned form, and takes state snapshots through the verification hooks.
//! Everything above this file (models, monitors, generators) is non-generic.
use crate::ops::*;
use crate::track::*;
use caches::lfu::{KeyHasher, TinyLFU};
use caches::{
    AdaptiveCache, AdaptiveCacheBuilder, Cache, PutResult, RawLRU, ResizableCache, SegmentedCache,
    SegmentedCacheBuilder, TwoQueueCache, TwoQueueCacheBuilder, WTinyLFUCache,
    WTinyLFUCacheBuilder,
};
use std::borrow::Borrow;
use std::cell::RefCell;
use std::hash::{BuildHasher, Hash, Hasher};
use std::marker::PhantomData;
use std::panic::{catch_unwind, AssertUnwindSafe};

// ---------------------------------------------------------------------------------------
// configuration
// ---------------------------------------------------------------------------------------

#[derive(Clone, Debug, PartialEq)]
pub struct Cfg {
    pub kind: Kind,
    /// Lru: capacity; Slru: probationary; TwoQ/Arc: size; Wtlfu: window
    pub a: usize,
    /// Slru: protected; Wtlfu: protected
    pub b: usize,
    /// Wtlfu: probationary
    pub c: usize,
    pub rr: f64,
    pub gr: f64,
    pub samples: usize,
    /// key hasher of the W-TinyLFU estimator
    pub kh: HKind,
    /// constructor variant: 0 = builder / hasher-taking constructor with the harness
    /// BuildHasher; 1 = plain constructor with the crate's default hasher
    pub ctor: u8,
    /// list hasher (ignored when ctor = 1)
    pub hk: HKind,
    /// RawLRU only: build without an eviction callback
    pub no_cb: bool,
    /// RawLRU, ctor 3: the cache is built by converting these keys (duplicates allowed)
    pub init: Vec<u32>,
}

impl Cfg {
    pub fn lru(cap: usize) -> Cfg {
        Cfg {
            kind: Kind::Lru,
            a: cap,
            b: 0,
            c: 0,
            rr: 0.25,
            gr: 0.5,
            samples: 8,
            kh: HKind::Ident,
            ctor: 0,
            hk: HKind::Fnv,
            no_cb: false,
            init: vec![],
        }
    }
    pub fn slru(prob: usize, prot: usize) -> Cfg {
        Cfg {
            kind: Kind::Slru,
            a: prob,
            b: prot,
            ..Cfg::lru(0)
        }
    }
    pub fn twoq(size: usize, rr: f64, gr: f64) -> Cfg {
        Cfg {
            kind: Kind::TwoQ,
            a: size,
            rr,
            gr,
            ..Cfg::lru(0)
        }
    }
    pub fn arc(size: usize) -> Cfg {
        Cfg {
            kind: Kind::Arc,
            a: size,
            ..Cfg::lru(0)
        }
    }
    pub fn wtlfu(window: usize, prot: usize, prob: usize, samples: usize, kh: HKind) -> Cfg {
        Cfg {
            kind: Kind::Wtlfu,
            a: window,
            b: prot,
            c: prob,
            samples,
            kh,
            ..Cfg::lru(0)
        }
    }
    pub fn with_hasher(mut self, hk: HKind) -> Cfg {
        self.hk = hk;
        self
    }
    pub fn with_ctor(mut self, ctor: u8) -> Cfg {
        self.ctor = ctor;
        self
    }
    /// total resident capacity
    pub fn total(&self) -> usize {
        match self.kind {
            Kind::Lru | Kind::TwoQ | Kind::Arc => self.a,
            Kind::Slru => self.a + self.b,
            Kind::Wtlfu => self.a + self.b + self.c,
        }
    }
    pub fn quota(&self) -> usize {
        (self.a as f64 * self.rr).floor() as usize
    }
    pub fn ghost_cap(&self) -> usize {
        (self.a as f64 * self.gr).floor() as usize
    }
    pub fn to_text(&self) -> String {
        format!(
            "{},{},{},{},{},{},{},{},{},{},{},{}",
            self.kind.name(),
            self.a,
            self.b,
            self.c,
            self.rr.to_bits(),
            self.gr.to_bits(),
            self.samples,
            self.kh.name(),
            self.ctor,
            self.hk.name(),
            self.no_cb as u8,
            self.init.iter().map(|k| k.to_string()).collect::<Vec<_>>().join("+")
        )
    }
    pub fn parse(s: &str) -> Option<Cfg> {
        let p: Vec<&str> = s.split(',').collect();
        if p.len() < 11 {
            return None;
        }
        Some(Cfg {
            kind: Kind::parse(p[0])?,
            a: p[1].parse().ok()?,
            b: p[2].parse().ok()?,
            c: p[3].parse().ok()?,
            rr: f64::from_bits(p[4].parse().ok()?),
            gr: f64::from_bits(p[5].parse().ok()?),
            samples: p[6].parse().ok()?,
            kh: HKind::parse(p[7])?,
            ctor: p[8].parse().ok()?,
            hk: HKind::parse(p[9])?,
            no_cb: p[10] == "1",
            init: p.get(11).map(|s| s.split('+').filter_map(|x| x.parse().ok()).collect()).unwrap_or_default(),
        })
    }
    pub fn describe(&self) -> String {
        let base = match self.kind {
            Kind::Lru if self.ctor == 3 => format!("lru(converted from {:?}, via {})", self.init, ["From<Vec>", "collect()", "From<&[..]>"][self.a % 3]),
            Kind::Lru => format!("lru(cap={}{})", self.a, if self.no_cb { ",nocb" } else { "" }),
            Kind::Slru => format!("slru(prob={},prot={})", self.a, self.b),
            Kind::TwoQ => format!("twoq(size={},rr={},gr={})", self.a, self.rr, self.gr),
            Kind::Arc => format!("arc(size={})", self.a),
            Kind::Wtlfu => format!(
                "wtlfu(window={},prot={},prob={},samples={},kh={})",
                self.a,
                self.b,
                self.c,
                self.samples,
                self.kh.name()
            ),
        };
        if self.ctor == 1 {
            format!("{}[default-hasher]", base)
        } else {
            format!("{}[{}]", base, self.hk.name())
        }
    }
}

// ---------------------------------------------------------------------------------------
// keys
// ---------------------------------------------------------------------------------------

pub trait KeyLike:
    Hash + Eq + Clone + Borrow<Self::Q1> + Borrow<Self::Q2> + KeyNum + 'static
{
    type Q1: ?Sized + Hash + Eq;
    type Q2: ?Sized + Hash + Eq;
    const NAME: &'static str;
    fn mk(n: u32) -> Self;
    fn oid(&self) -> u64;
    fn with_q1<R>(n: u32, f: impl FnOnce(&Self::Q1) -> R) -> R;
    fn with_q2<R>(n: u32, f: impl FnOnce(&Self::Q2) -> R) -> R;
    /// lookups through a borrowed form that *aliases* the stored key's own buffer (e.g. a
    /// `&str` prefix sliced from a resident `String` key obtained from the cache itself)
    fn alias_probe<C: Cache<Self, TVal>>(_c: &C, _resident: &[&Self]) -> Option<String> {
        None
    }
}

impl KeyLike for TKey {
    type Q1 = KNum;
    type Q2 = TKey;
    const NAME: &'static str = "tkey";
    fn mk(n: u32) -> Self {
        TKey::new(n)
    }
    fn oid(&self) -> u64 {
        self.id
    }
    fn with_q1<R>(n: u32, f: impl FnOnce(&KNum) -> R) -> R {
        f(&KNum(n))
    }
    fn with_q2<R>(n: u32, f: impl FnOnce(&TKey) -> R) -> R {
        let k = TKey::new(n);
        f(&k)
    }
}

pub fn num_to_str(n: u32) -> String {
    // long enough to be heap allocated with a distinct buffer per key object
    format!("key-{:06}-heap-allocated-string-key", n)
}
pub fn str_to_num(s: &str) -> u32 {
    s.get(4..10).and_then(|x| x.parse().ok()).unwrap_or(u32::MAX)
}

impl KeyLike for String {
    type Q1 = str;
    type Q2 = String;
    const NAME: &'static str = "string";
    fn mk(n: u32) -> Self {
        num_to_str(n)
    }
    fn oid(&self) -> u64 {
        0
    }
    fn with_q1<R>(n: u32, f: impl FnOnce(&str) -> R) -> R {
        let s = num_to_str(n);
        f(s.as_str())
    }
    fn with_q2<R>(n: u32, f: impl FnOnce(&String) -> R) -> R {
        let s = num_to_str(n);
        f(&s)
    }
    fn alias_probe<C: Cache<String, TVal>>(c: &C, resident: &[&String]) -> Option<String> {
        for k in resident {
            let full: &str = k.as_str();
            // the key's own buffer as the probe: must be found
            if !c.contains(full) || c.peek(full).is_none() {
                return Some(format!("resident key {:?} is not found through a &str borrowed from the stored key itself", full));
            }
            // proper prefixes / suffixes of the stored buffer are different keys (all keys of
            // the harness have the same length, so none of them can be resident)
            for probe in [&full[..full.len() - 1], &full[..4], &full[1..], &full[..0]] {
                if c.contains(probe) || c.peek(probe).is_some() {
                    return Some(format!("lookup of {:?} (a slice of the stored key {:?}) reports a resident entry", probe, full));
                }
            }
        }
        None
    }
}

// ---------------------------------------------------------------------------------------
// hashers
// ---------------------------------------------------------------------------------------

pub trait HB: BuildHasher + Clone + 'static {
    const IS_DEFAULT: bool;
    fn mk(kind: HKind) -> Self;
}
impl HB for DynBH {
    const IS_DEFAULT: bool = false;
    fn mk(kind: HKind) -> Self {
        DynBH::new(kind)
    }
}
impl HB for caches::DefaultHashBuilder {
    const IS_DEFAULT: bool = true;
    fn mk(_: HKind) -> Self {
        Default::default()
    }
}

/// KeyHasher of the frequency estimator, same families as the list hashers.
#[derive(Clone)]
pub struct DynKH(pub DynBH);
impl Default for DynKH {
    fn default() -> Self {
        DynKH(DynBH::new(HKind::Ident))
    }
}
impl<K: Hash + Eq> KeyHasher<K> for DynKH {
    fn hash_key<Q>(&self, key: &Q) -> u64
    where
        K: Borrow<Q>,
        Q: Hash + Eq + ?Sized,
    {
        let mut h = self.0.build_hasher();
        key.hash(&mut h);
        h.finish()
    }
}

// ---------------------------------------------------------------------------------------
// snapshots
// ---------------------------------------------------------------------------------------

#[derive(Clone, Debug, PartialEq, Eq)]
pub struct Item {
    pub k: u32,
    pub vid: u64,
    pub koid: u64,
    pub void: u64,
    pub kaddr: usize,
}

#[derive(Clone, Debug, PartialEq, Eq, Default)]
pub struct EstDigest {
    pub w: usize,
    pub samples: usize,
    pub rows: Vec<Vec<u8>>,
    pub words: Vec<u64>,
    pub seeds: [u64; 4],
}

#[derive(Clone, Debug, Default)]
pub struct Snapshot {
    /// entries of every list, most recently used first
    pub lists: Vec<Vec<Item>>,
    pub caps: Vec<usize>,
    /// ARC adaptation target (0 otherwise)
    pub p: usize,
    pub est: Option<EstDigest>,
}

impl Snapshot {
    /// equality of everything observable (addresses excluded)
    pub fn same(&self, o: &Snapshot, with_oids: bool) -> bool {
        if self.caps != o.caps || self.p != o.p || self.est != o.est {
            return false;
        }
        if self.lists.len() != o.lists.len() {
            return false;
        }
        for (a, b) in self.lists.iter().zip(o.lists.iter()) {
            if a.len() != b.len() {
                return false;
            }
            for (x, y) in a.iter().zip(b.iter()) {
                if x.k != y.k || x.vid != y.vid {
                    return false;
                }
                if with_oids && (x.koid != y.koid || x.void != y.void) {
                    return false;
                }
            }
        }
        true
    }
    pub fn keys(&self, list: usize) -> Vec<u32> {
        self.lists[list].iter().map(|i| i.k).collect()
    }
    pub fn kv(&self, list: usize) -> Vec<(u32, u64)> {
        self.lists[list].iter().map(|i| (i.k, i.vid)).collect()
    }
    pub fn find(&self, k: u32) -> Option<(usize, usize)> {
        for (li, l) in self.lists.iter().enumerate() {
            if let Some(p) = l.iter().position(|i| i.k == k) {
                return Some((li, p));
            }
        }
        None
    }
    pub fn total_items(&self) -> usize {
        self.lists.iter().map(|l| l.len()).sum()
    }
    /// hash of the abstract state: keys per list (+ p), values erased
    pub fn abstract_hash(&self) -> u64 {
        let mut a = crate::util::Acc::new();
        for l in &self.lists {
            a.add(0xffff_ffff_ffff);
            for i in l {
                a.add(i.k as u64);
            }
        }
        for c in &self.caps {
            a.add(*c as u64);
        }
        a.add(self.p as u64);
        if let Some(e) = &self.est {
            a.add(e.w as u64);
            for r in &e.rows {
                for b in r {
                    a.add(*b as u64);
                }
            }
            for w in &e.words {
                a.add(*w);
            }
        }
        a.get()
    }
    pub fn describe(&self, kind: Kind) -> String {
        let names = kind.list_names();
        let mut s = String::new();
        for (i, l) in self.lists.iter().enumerate() {
            if i > 0 {
                s.push(' ');
            }
            s.push_str(names.get(i).copied().unwrap_or("?"));
            s.push_str("=[");
            s.push_str(
                &l.iter()
                    .map(|it| format!("{}/v{}", it.k, it.vid))
                    .collect::<Vec<_>>()
                    .join(","),
            );
            s.push(']');
        }
        if kind == Kind::Arc {
            s.push_str(&format!(" p={}", self.p));
        }
        s
    }
}

#[derive(Clone, Debug, Default)]
pub struct Probes {
    pub len: usize,
    pub cap: usize,
    pub is_empty: bool,
    /// contains(k) through both borrowed forms, peek(k) through both forms, per universe key
    pub contains: Vec<(bool, bool)>,
    pub peek: Vec<(Option<u64>, Option<u64>)>,
    pub seg_lens: Vec<u64>,
    /// outcome of the aliasing lookups (String keys)
    pub alias: Option<String>,
}

fn items<'a, K: KeyLike + 'a>(v: Vec<(&'a K, &'a TVal)>) -> Vec<Item> {
    v.into_iter()
        .map(|(k, v)| Item {
            k: k.key_num(),
            vid: v.read(),
            koid: k.oid(),
            void: v.id,
            kaddr: k as *const K as usize,
        })
        .collect()
}

fn digest<K, KH>(t: &TinyLFU<K, KH>) -> EstDigest {
    let (w, samples, rows, words, seeds) = t.verif_digest();
    EstDigest {
        w,
        samples,
        rows,
        words,
        seeds,
    }
}

// ---------------------------------------------------------------------------------------
// rendering results
// ---------------------------------------------------------------------------------------

pub fn render_pr<K: KeyLike>(r: PutResult<K, TVal>) -> PR {
    match r {
        PutResult::Put => PR::Put,
        PutResult::Update(v) => PR::Update(v.read()),
        PutResult::Evicted { key, value } => PR::Evicted(key.key_num(), value.read()),
        PutResult::EvictedAndUpdate { evicted, update } => {
            PR::EvictedAndUpdate(evicted.0.key_num(), evicted.1.read(), update.read())
        }
    }
}

fn val(o: Option<&TVal>) -> Res {
    Res::Val(o.map(|v| v.read()))
}
fn val_mut(o: Option<&mut TVal>, w: bool, nv: u64) -> Res {
    Res::Val(o.map(|v| {
        let old = v.read();
        if w {
            v.write(nv);
        }
        old
    }))
}
fn kv<K: KeyLike>(o: Option<(&K, &TVal)>) -> Res {
    Res::KV(o.map(|(k, v)| (k.key_num(), v.read())))
}
fn kv_mut<K: KeyLike>(o: Option<(&K, &mut TVal)>, w: bool, nv: u64) -> Res {
    Res::KV(o.map(|(k, v)| {
        let old = v.read();
        if w {
            v.write(nv);
        }
        (k.key_num(), old)
    }))
}

macro_rules! lk {
    ($K:ty, $k:expr, $alt:expr, |$q:ident| $body:expr) => {
        if $alt {
            <$K as KeyLike>::with_q2($k, |$q| $body)
        } else {
            <$K as KeyLike>::with_q1($k, |$q| $body)
        }
    };
}

/// the operations of the `Cache` trait, common to all five types
fn exec_common<K: KeyLike, C: Cache<K, TVal>>(c: &mut C, op: &Op, nv: u64) -> Option<Res> {
    Some(match *op {
        Op::Put(k) => Res::Put(render_pr(c.put(K::mk(k), TVal::new(nv)))),
        Op::Get(k, alt) => lk!(K, k, alt, |q| val(c.get(q))),
        Op::GetMut(k, alt, w) => lk!(K, k, alt, |q| val_mut(c.get_mut(q), w, nv)),
        Op::Peek(k, alt) => lk!(K, k, alt, |q| val(c.peek(q))),
        Op::PeekMut(k, alt, w) => lk!(K, k, alt, |q| val_mut(c.peek_mut(q), w, nv)),
        Op::Contains(k, alt) => lk!(K, k, alt, |q| Res::Bool(c.contains(q))),
        Op::Remove(k, alt) => lk!(K, k, alt, |q| Res::Val(c.remove(q).map(|v| v.read()))),
        Op::Purge => {
            c.purge();
            Res::Unit
        }
        Op::Len => Res::Num(c.len() as u64),
        Op::Cap => Res::Num(c.cap() as u64),
        Op::IsEmpty => Res::Bool(c.is_empty()),
        _ => return None,
    })
}

// ---------------------------------------------------------------------------------------
// iterator driver
// ---------------------------------------------------------------------------------------

type ItemRec = (Option<u32>, Option<u64>, Option<u64>);

fn drive<I, T>(
    mut it: I,
    spec: &IterSpec,
    nv: u64,
    mut conv: impl FnMut(T, Option<u64>) -> ItemRec,
    cloner: Option<fn(&I) -> I>,
) -> IterTrace
where
    I: DoubleEndedIterator<Item = T> + ExactSizeIterator,
{
    let mut tr = IterTrace {
        initial_len: it.len(),
        initial_hint: it.size_hint(),
        ..Default::default()
    };
    let mut wcount = 0u64;
    let mut clone_rest = None;
    for i in 0..spec.steps {
        if spec.clone_at == i {
            if let Some(cl) = cloner {
                let c2 = cl(&it);
                clone_rest = Some(drain_both_ends(c2, &mut conv));
            }
        }
        let back = (spec.pat >> i) & 1 == 1;
        let x = if back { it.next_back() } else { it.next() };
        let item = x.map(|t| {
            let w = if spec.write && spec.fam.mutable() {
                wcount += 1;
                Some(nv + wcount - 1)
            } else {
                None
            };
            conv(t, w)
        });
        let (lo, hi) = it.size_hint();
        tr.steps.push(IterStep {
            back,
            item,
            hint_lo: lo,
            hint_hi: hi,
            len: it.len(),
        });
    }
    if spec.clone_at == spec.steps {
        if let Some(cl) = cloner {
            let c2 = cl(&it);
            clone_rest = Some(drain_both_ends(c2, &mut conv));
        }
    }
    tr.clone_rest = clone_rest;
    tr.drained = it.len() == 0;
    if tr.drained {
        tr.fused_ok = it.next().is_none()
            && it.next_back().is_none()
            && it.next().is_none()
            && it.next_back().is_none()
            && it.size_hint() == (0, Some(0));
    } else {
        tr.fused_ok = true;
    }
    match spec.fin {
        1 => {
            tr.final_count = it.len();
            tr.fin_item = it.last().map(|t| {
                let r = conv(t, None);
                (r.0, r.1)
            });
        }
        2 => {
            tr.final_count = it.len();
            tr.fin_item = it.nth(1).map(|t| {
                let r = conv(t, None);
                (r.0, r.1)
            });
            tr.fin_n = it.len();
        }
        3 => {
            tr.final_count = it.len();
            tr.fin_item = it.nth_back(1).map(|t| {
                let r = conv(t, None);
                (r.0, r.1)
            });
            tr.fin_n = it.len();
        }
        4 => {
            tr.final_count = it.len();
            tr.fin_item = it.rev().next().map(|t| {
                let r = conv(t, None);
                (r.0, r.1)
            });
        }
        5 => {
            tr.final_count = it.len();
            let mut n = 0usize;
            let mut lastx = None;
            for t in it {
                n += 1;
                let r = conv(t, None);
                lastx = Some((r.0, r.1));
            }
            tr.fin_n = n;
            tr.fin_item = lastx;
        }
        6 => {
            // rfold: visits the remainder back to front
            tr.final_count = it.len();
            let (n, lastx) = it.rfold((0usize, None), |(n, _), t| {
                let r = conv(t, None);
                (n + 1, Some((r.0, r.1)))
            });
            tr.fin_n = n;
            tr.fin_item = lastx;
        }
        7 => {
            // step_by(2): every other item of the remainder; the last one visited is reported
            tr.final_count = it.len();
            let mut n = 0usize;
            let mut lastx = None;
            for t in it.step_by(2) {
                n += 1;
                let r = conv(t, None);
                lastx = Some((r.0, r.1));
            }
            tr.fin_n = n;
            tr.fin_item = lastx;
        }
        8 => {
            tr.final_count = it.len();
            let mut sk = it.skip(1);
            tr.fin_item = sk.next().map(|t| {
                let r = conv(t, None);
                (r.0, r.1)
            });
            tr.fin_n = sk.count();
        }
        _ => {
            tr.final_count = it.count();
        }
    }
    tr
}

/// drain an iterator alternating next / next_back and return the items in iteration order
fn drain_both_ends<I, T>(mut it: I, conv: &mut impl FnMut(T, Option<u64>) -> ItemRec) -> Vec<(Option<u32>, Option<u64>)>
where
    I: DoubleEndedIterator<Item = T> + ExactSizeIterator,
{
    let mut front = vec![];
    let mut back = vec![];
    let mut guard = it.len() + 3;
    let mut from_back = true;
    while guard > 0 {
        guard -= 1;
        let x = if from_back { it.next_back() } else { it.next() };
        match x {
            None => break,
            Some(t) => {
                let r = conv(t, None);
                if from_back {
                    back.push((r.0, r.1));
                } else {
                    front.push((r.0, r.1));
                }
            }
        }
        from_back = !from_back;
    }
    back.reverse();
    front.extend(back);
    front
}

/// how many fresh value ids an iterator op may consume
pub fn iter_vids(spec: &IterSpec) -> u64 {
    if spec.write && spec.fam.mutable() {
        spec.steps as u64
    } else {
        0
    }
}

fn c_kv<K: KeyLike>((k, v): (&K, &TVal), _w: Option<u64>) -> ItemRec {
    (Some(k.key_num()), Some(v.read()), None)
}
fn c_kvm<K: KeyLike>((k, v): (&K, &mut TVal), w: Option<u64>) -> ItemRec {
    let old = v.read();
    if let Some(w) = w {
        v.write(w);
    }
    (Some(k.key_num()), Some(old), w)
}
fn c_k<K: KeyLike>(k: &K, _w: Option<u64>) -> ItemRec {
    (Some(k.key_num()), None, None)
}
fn c_v(v: &TVal, _w: Option<u64>) -> ItemRec {
    (None, Some(v.read()), None)
}
fn c_vm(v: &mut TVal, w: Option<u64>) -> ItemRec {
    let old = v.read();
    if let Some(w) = w {
        v.write(w);
    }
    (None, Some(old), w)
}

macro_rules! drive_methods {
    ($c:expr, $K:ty, $spec:expr, $nv:expr,
     $iter:ident, $iter_lru:ident, $iter_mut:ident, $iter_lru_mut:ident,
     $keys:ident, $keys_lru:ident, $values:ident, $values_lru:ident,
     $values_mut:ident, $values_lru_mut:ident) => {
        match $spec.fam {
            Fam::Iter => Res::Iter(drive($c.$iter(), $spec, $nv, c_kv::<$K>, Some(|i| i.clone()))),
            Fam::IterLru => {
                Res::Iter(drive($c.$iter_lru(), $spec, $nv, c_kv::<$K>, Some(|i| i.clone())))
            }
            Fam::IterMut => Res::Iter(drive($c.$iter_mut(), $spec, $nv, c_kvm::<$K>, None)),
            Fam::IterLruMut => Res::Iter(drive($c.$iter_lru_mut(), $spec, $nv, c_kvm::<$K>, None)),
            Fam::Keys => Res::Iter(drive($c.$keys(), $spec, $nv, c_k::<$K>, Some(|i| i.clone()))),
            Fam::KeysLru => {
                Res::Iter(drive($c.$keys_lru(), $spec, $nv, c_k::<$K>, Some(|i| i.clone())))
            }
            Fam::Values => Res::Iter(drive($c.$values(), $spec, $nv, c_v, Some(|i| i.clone()))),
            Fam::ValuesLru => {
                Res::Iter(drive($c.$values_lru(), $spec, $nv, c_v, Some(|i| i.clone())))
            }
            Fam::ValuesMut => Res::Iter(drive($c.$values_mut(), $spec, $nv, c_vm, None)),
            Fam::ValuesLruMut => Res::Iter(drive($c.$values_lru_mut(), $spec, $nv, c_vm, None)),
            _ => Res::Unsupported,
        }
    };
}

// ---------------------------------------------------------------------------------------
// Subject: one impl per cache type
// ---------------------------------------------------------------------------------------

pub trait Subject<K: KeyLike>: Cache<K, TVal> + Sized {
    const KIND: Kind;
    fn build(cfg: &Cfg) -> Result<Self, String>;
    /// (capacity, audit result) of every inner list, through the hooks
    #[allow(clippy::type_complexity)]
    fn lists(&self, lookup: bool) -> Vec<(usize, Result<Vec<(&K, &TVal)>, String>)>;
    fn p(&self) -> usize {
        0
    }
    fn est(&self) -> Option<EstDigest> {
        None
    }
    fn estimate(&self, _k: u32) -> Option<u64> {
        None
    }
    /// estimator states admissible after recording one access to `k` in the current state
    fn est_after_access(&self, _k: u32) -> Vec<EstDigest> {
        vec![]
    }
    fn est_cleared(&self) -> Option<EstDigest> {
        None
    }
    fn reseed(&mut self, _seeds: [u64; 4]) {}
    fn extra(&mut self, _op: &Op, _nv: u64) -> Res {
        Res::Unsupported
    }
    fn seg_lens(&self) -> Vec<u64>;
    fn try_clone(&self) -> Option<Self> {
        None
    }
    /// `Clone::clone_from` (true when the type is Clone)
    fn try_clone_from(&mut self, _src: &Self) -> bool {
        false
    }
}

type Lru<K, S> = RawLRU<K, TVal, LogCb, S>;
type LruG<K, E, S> = RawLRU<K, TVal, E, S>;

/// eviction callback of the RawLRU under test: the logging one, or the crate's no-op one
/// (caches built by `From` / `FromIterator` / `with_hasher` have no callback)
pub trait CbM: caches::OnEvictCallback + Clone + 'static {
    const IS_LOG: bool;
    fn mk() -> Self;
}
impl CbM for LogCb {
    const IS_LOG: bool = true;
    fn mk() -> Self {
        LogCb
    }
}
impl CbM for caches::DefaultEvictCallback {
    const IS_LOG: bool = false;
    fn mk() -> Self {
        caches::DefaultEvictCallback
    }
}

macro_rules! audit {
    ($r:expr, $lookup:expr) => {
        if $lookup {
            $r.verif_audit_lookup()
        } else {
            $r.verif_audit()
        }
    };
}

impl<K: KeyLike, E: CbM, S: HB> Subject<K> for LruG<K, E, S> {
    const KIND: Kind = Kind::Lru;
    fn build(cfg: &Cfg) -> Result<Self, String> {
        if !E::IS_LOG {
            // no callback: a conversion (`From<Vec>` / `collect()` / `From<&[..]>`) of the
            // initial items (which may repeat keys), or `with_hasher`
            if S::IS_DEFAULT {
                let items: Vec<(K, TVal)> = cfg.init.iter().enumerate().map(|(i, k)| (K::mk(*k), TVal::new(1_000_000 + i as u64))).collect();
                let c: RawLRU<K, TVal> = match cfg.a % 3 {
                    0 => RawLRU::from(items),
                    1 => items.into_iter().collect(),
                    _ => RawLRU::from(&items[..]),
                };
                return Ok(cast::<RawLRU<K, TVal>, Self>(c));
            }
            let r: Result<RawLRU<K, TVal, caches::DefaultEvictCallback, S>, _> = RawLRU::with_hasher(cfg.a, S::mk(cfg.hk));
            return cast::<_, Result<Self, caches::lru::CacheError>>(r).map_err(|e| format!("{:?}", e));
        }
        // both constructors that take a callback
        let r: Result<Lru<K, S>, caches::lru::CacheError> = if S::IS_DEFAULT {
            // with_on_evict_cb is only defined for the default hash builder; go through a
            // helper so that the generic S unifies with it
            build_lru_default::<K, S>(cfg.a)
        } else {
            RawLRU::with_on_evict_cb_and_hasher(cfg.a, LogCb, S::mk(cfg.hk))
        };
        cast::<_, Result<Self, caches::lru::CacheError>>(r).map_err(|e| format!("{:?}", e))
    }
    fn lists(&self, lookup: bool) -> Vec<(usize, Result<Vec<(&K, &TVal)>, String>)> {
        vec![(self.cap(), audit!(self, lookup))]
    }
    fn seg_lens(&self) -> Vec<u64> {
        vec![self.len() as u64]
    }
    fn try_clone(&self) -> Option<Self> {
        Some(self.clone())
    }
    fn try_clone_from(&mut self, src: &Self) -> bool {
        self.clone_from(src);
        true
    }
    fn extra(&mut self, op: &Op, nv: u64) -> Res {
        match *op {
            Op::Resize(n) => Res::Num(self.resize(n)),
            Op::GetLru => kv(self.get_lru()),
            Op::GetLruMut(w) => kv_mut(self.get_lru_mut(), w, nv),
            Op::GetMru => kv(self.get_mru()),
            Op::GetMruMut(w) => kv_mut(self.get_mru_mut(), w, nv),
            Op::PeekLru => kv(self.peek_lru()),
            Op::PeekLruMut(w) => kv_mut(self.peek_lru_mut(), w, nv),
            Op::PeekMru => kv(self.peek_mru()),
            Op::PeekMruMut(w) => kv_mut(self.peek_mru_mut(), w, nv),
            Op::PeekOrPut(k) => {
                let (found, pr) = self.peek_or_put(K::mk(k), TVal::new(nv));
                let f = found.map(|v| v.read());
                Res::OrPut(f, f.is_some(), pr.map(render_pr))
            }
            Op::PeekMutOrPut(k, w) => {
                let (found, pr) = self.peek_mut_or_put(K::mk(k), TVal::new(nv));
                let f = found.map(|v| {
                    let old = v.read();
                    if w {
                        v.write(nv + 1);
                    }
                    old
                });
                Res::OrPut(f, f.is_some(), pr.map(render_pr))
            }
            Op::ContainsOrPut(k) => {
                let (found, pr) = self.contains_or_put(K::mk(k), TVal::new(nv));
                Res::OrPut(None, found, pr.map(render_pr))
            }
            Op::RemoveLru => Res::KV(self.remove_lru().map(|(k, v)| (k.key_num(), v.read()))),
            Op::SegLens => Res::Lens(self.seg_lens()),
            Op::Debug => Res::Text(format!("{:?}", self)),
            Op::Iter(ref spec) => {
                if spec.list != 0 {
                    return Res::Unsupported;
                }
                match spec.fam {
                    Fam::IntoRef => Res::Iter(drive(
                        (&*self).into_iter(),
                        spec,
                        nv,
                        c_kv::<K>,
                        Some(|i| i.clone()),
                    )),
                    Fam::IntoMut => {
                        Res::Iter(drive((&mut *self).into_iter(), spec, nv, c_kvm::<K>, None))
                    }
                    _ => drive_methods!(
                        self, K, spec, nv, iter, iter_lru, iter_mut, iter_lru_mut, keys, keys_lru,
                        values, values_lru, values_mut, values_lru_mut
                    ),
                }
            }
            _ => Res::Unsupported,
        }
    }
}

/// Identity cast between two types that are known (and checked) to be the same type.
fn cast<A: 'static, B: 'static>(a: A) -> B {
    let mut s = Some(a);
    let any: &mut dyn std::any::Any = &mut s;
    any.downcast_mut::<Option<B>>()
        .expect("cast between different types")
        .take()
        .unwrap()
}

fn build_lru_default<K: KeyLike, S: HB>(cap: usize) -> Result<Lru<K, S>, caches::lru::CacheError> {
    // S is caches::DefaultHashBuilder here (IS_DEFAULT)
    let r: Result<RawLRU<K, TVal, LogCb, caches::DefaultHashBuilder>, _> =
        RawLRU::with_on_evict_cb(cap, LogCb);
    cast(r)
}

type Slru<K, S> = SegmentedCache<K, TVal, S, S>;

impl<K: KeyLike, S: HB> Subject<K> for Slru<K, S> {
    const KIND: Kind = Kind::Slru;
    fn build(cfg: &Cfg) -> Result<Self, String> {
        let b = SegmentedCacheBuilder::new(cfg.a, cfg.b)
            .set_probationary_hasher(S::mk(cfg.hk))
            .set_protected_hasher(S::mk(cfg.hk));
        let r = if S::IS_DEFAULT {
            cast(SegmentedCache::<K, TVal>::new(cfg.a, cfg.b))
        } else if cfg.ctor == 2 {
            SegmentedCache::from_builder(b)
        } else {
            b.finalize()
        };
        r.map_err(|e| format!("{:?}", e))
    }
    fn lists(&self, lookup: bool) -> Vec<(usize, Result<Vec<(&K, &TVal)>, String>)> {
        vec![
            (self.probationary_cap(), audit!(self.verif_probationary(), lookup)),
            (self.protected_cap(), audit!(self.verif_protected(), lookup)),
        ]
    }
    fn seg_lens(&self) -> Vec<u64> {
        vec![self.probationary_len() as u64, self.protected_len() as u64]
    }
    fn try_clone(&self) -> Option<Self> {
        Some(self.clone())
    }
    fn try_clone_from(&mut self, src: &Self) -> bool {
        self.clone_from(src);
        true
    }
    fn extra(&mut self, op: &Op, nv: u64) -> Res {
        match *op {
            Op::PutProtected(k) => Res::Put(render_pr(self.put_protected(K::mk(k), TVal::new(nv)))),
            Op::RemoveLruFrom(0) => Res::KV(
                self.remove_lru_from_probationary()
                    .map(|(k, v)| (k.key_num(), v.read())),
            ),
            Op::RemoveLruFrom(1) => Res::KV(
                self.remove_lru_from_protected()
                    .map(|(k, v)| (k.key_num(), v.read())),
            ),
            Op::PeekLruFrom(0) => kv(self.peek_lru_from_probationary()),
            Op::PeekLruFrom(1) => kv(self.peek_lru_from_protected()),
            Op::PeekMruFrom(0) => kv(self.peek_mru_from_probationary()),
            Op::PeekMruFrom(1) => kv(self.peek_mru_from_protected()),
            Op::PeekLruMutFrom(0, w) => kv_mut(self.peek_lru_mut_from_probationary(), w, nv),
            Op::PeekLruMutFrom(1, w) => kv_mut(self.peek_lru_mut_from_protected(), w, nv),
            Op::PeekMruMutFrom(0, w) => kv_mut(self.peek_mru_mut_from_probationary(), w, nv),
            Op::PeekMruMutFrom(1, w) => kv_mut(self.peek_mru_mut_from_protected(), w, nv),
            Op::SegLens => Res::Lens(vec![
                self.probationary_len() as u64,
                self.protected_len() as u64,
                self.probationary_cap() as u64,
                self.protected_cap() as u64,
            ]),
            _ => Res::Unsupported,
        }
    }
}

type TwoQ<K, S> = TwoQueueCache<K, TVal, S, S, S>;

impl<K: KeyLike, S: HB> Subject<K> for TwoQ<K, S> {
    const KIND: Kind = Kind::TwoQ;
    fn build(cfg: &Cfg) -> Result<Self, String> {
        let b = TwoQueueCacheBuilder::new(cfg.a)
            .set_recent_ratio(cfg.rr)
            .set_ghost_ratio(cfg.gr)
            .set_recent_hasher(S::mk(cfg.hk))
            .set_frequent_hasher(S::mk(cfg.hk))
            .set_ghost_hasher(S::mk(cfg.hk));
        let r = if S::IS_DEFAULT {
            cast(TwoQueueCache::<K, TVal>::with_2q_parameters(cfg.a, cfg.rr, cfg.gr))
        } else if cfg.ctor == 2 {
            TwoQueueCache::from_builder(b)
        } else {
            b.finalize()
        };
        r.map_err(|e| format!("{:?}", e))
    }
    fn lists(&self, lookup: bool) -> Vec<(usize, Result<Vec<(&K, &TVal)>, String>)> {
        vec![
            (self.verif_recent().cap(), audit!(self.verif_recent(), lookup)),
            (self.verif_frequent().cap(), audit!(self.verif_frequent(), lookup)),
            (self.verif_ghost().cap(), audit!(self.verif_ghost(), lookup)),
        ]
    }
    fn p(&self) -> usize {
        self.verif_recent_quota()
    }
    fn seg_lens(&self) -> Vec<u64> {
        vec![
            self.recent_len() as u64,
            self.frequent_len() as u64,
            self.ghost_len() as u64,
        ]
    }
    fn extra(&mut self, op: &Op, nv: u64) -> Res {
        match *op {
            Op::SegLens => Res::Lens(self.seg_lens()),
            Op::Debug => Res::Text(format!("{:?}", self)),
            Op::Iter(ref spec) => match spec.list {
                0 => drive_methods!(
                    self, K, spec, nv, recent_iter, recent_iter_lru, recent_iter_mut,
                    recent_iter_lru_mut, recent_keys, recent_keys_lru, recent_values,
                    recent_values_lru, recent_values_mut, recent_values_lru_mut
                ),
                1 => drive_methods!(
                    self, K, spec, nv, frequent_iter, frequent_iter_lru, frequent_iter_mut,
                    frequent_iter_lru_mut, frequent_keys, frequent_keys_lru, frequent_values,
                    frequent_values_lru, frequent_values_mut, frequent_values_lru_mut
                ),
                2 => drive_methods!(
                    self, K, spec, nv, ghost_iter, ghost_iter_lru, ghost_iter_mut,
                    ghost_iter_lru_mut, ghost_keys, ghost_keys_lru, ghost_values,
                    ghost_values_lru, ghost_values_mut, ghost_values_lru_mut
                ),
                _ => Res::Unsupported,
            },
            _ => Res::Unsupported,
        }
    }
}

type Arc_<K, S> = AdaptiveCache<K, TVal, S, S, S, S>;

impl<K: KeyLike, S: HB> Subject<K> for Arc_<K, S> {
    const KIND: Kind = Kind::Arc;
    fn build(cfg: &Cfg) -> Result<Self, String> {
        let b = AdaptiveCacheBuilder::new(cfg.a)
            .set_recent_hasher(S::mk(cfg.hk))
            .set_frequent_hasher(S::mk(cfg.hk))
            .set_recent_evict_hasher(S::mk(cfg.hk))
            .set_frequent_evict_hasher(S::mk(cfg.hk));
        let r = if S::IS_DEFAULT {
            cast(AdaptiveCache::<K, TVal>::new(cfg.a))
        } else if cfg.ctor == 2 {
            AdaptiveCache::from_builder(b)
        } else {
            b.finalize()
        };
        r.map_err(|e| format!("{:?}", e))
    }
    fn lists(&self, lookup: bool) -> Vec<(usize, Result<Vec<(&K, &TVal)>, String>)> {
        vec![
            (self.verif_recent().cap(), audit!(self.verif_recent(), lookup)),
            (self.verif_frequent().cap(), audit!(self.verif_frequent(), lookup)),
            (
                self.verif_recent_evict().cap(),
                audit!(self.verif_recent_evict(), lookup),
            ),
            (
                self.verif_frequent_evict().cap(),
                audit!(self.verif_frequent_evict(), lookup),
            ),
        ]
    }
    fn p(&self) -> usize {
        self.partition()
    }
    fn seg_lens(&self) -> Vec<u64> {
        vec![
            self.recent_len() as u64,
            self.frequent_len() as u64,
            self.recent_evict_len() as u64,
            self.frequent_evict_len() as u64,
        ]
    }
    fn extra(&mut self, op: &Op, nv: u64) -> Res {
        match *op {
            Op::SegLens => {
                let mut v = self.seg_lens();
                v.push(self.partition() as u64);
                Res::Lens(v)
            }
            Op::Iter(ref spec) => match spec.list {
                0 => drive_methods!(
                    self, K, spec, nv, recent_iter, recent_iter_lru, recent_iter_mut,
                    recent_iter_lru_mut, recent_keys, recent_keys_lru, recent_values,
                    recent_values_lru, recent_values_mut, recent_values_lru_mut
                ),
                1 => drive_methods!(
                    self, K, spec, nv, frequent_iter, frequent_iter_lru, frequent_iter_mut,
                    frequent_iter_lru_mut, frequent_keys, frequent_keys_lru, frequent_values,
                    frequent_values_lru, frequent_values_mut, frequent_values_lru_mut
                ),
                2 => drive_methods!(
                    self, K, spec, nv, recent_evict_iter, recent_evict_iter_lru,
                    recent_evict_iter_mut, recent_evict_iter_lru_mut, recent_evict_keys,
                    recent_evict_keys_lru, recent_evict_values, recent_evict_values_lru,
                    recent_evict_values_mut, recent_evict_values_lru_mut
                ),
                3 => drive_methods!(
                    self, K, spec, nv, frequent_evict_iter, frequent_evict_iter_lru,
                    frequent_evict_iter_mut, frequent_evict_iter_lru_mut, frequent_evict_keys,
                    frequent_evict_keys_lru, frequent_evict_values, frequent_evict_values_lru,
                    frequent_evict_values_mut, frequent_evict_values_lru_mut
                ),
                _ => Res::Unsupported,
            },
            _ => Res::Unsupported,
        }
    }
}

/// key hasher of the estimator: the harness family, or the crate's DefaultKeyHasher
pub trait KHM<K: Hash + Eq>: KeyHasher<K> + Clone + 'static {
    const IS_DEFAULT: bool;
    fn mk(kind: HKind) -> Self;
}
impl<K: Hash + Eq> KHM<K> for DynKH {
    const IS_DEFAULT: bool = false;
    fn mk(kind: HKind) -> Self {
        DynKH(DynBH::new(kind))
    }
}
impl<K: Hash + Eq + Clone + 'static> KHM<K> for caches::lfu::DefaultKeyHasher<K> {
    const IS_DEFAULT: bool = true;
    fn mk(_: HKind) -> Self {
        Default::default()
    }
}

type Wt<K, S> = WTinyLFUCache<K, TVal, DynKH, S, S, S>;
type WtG<K, KH, S> = WTinyLFUCache<K, TVal, KH, S, S, S>;

impl<K: KeyLike, KH: KHM<K>, S: HB> Subject<K> for WtG<K, KH, S> {
    const KIND: Kind = Kind::Wtlfu;
    fn build(cfg: &Cfg) -> Result<Self, String> {
        if KH::IS_DEFAULT && S::IS_DEFAULT {
            // the plain constructor: default key hasher, default list hashers
            let r: Result<WTinyLFUCache<K, TVal>, String> =
                WTinyLFUCache::<K, TVal>::with_sizes(cfg.a, cfg.b, cfg.c, cfg.samples).map_err(|e| format!("{:?}", e));
            return cast::<Result<WTinyLFUCache<K, TVal>, String>, Result<Self, String>>(r);
        }
        let b = WTinyLFUCacheBuilder::<K, KH, S, S, S>::with_hashers(
            KH::mk(cfg.kh),
            S::mk(cfg.hk),
            S::mk(cfg.hk),
            S::mk(cfg.hk),
        )
        .set_window_cache_size(cfg.a)
        .set_protected_cache_size(cfg.b)
        .set_probationary_cache_size(cfg.c)
        .set_samples(cfg.samples);
        // `gr` doubles as the doorkeeper's false-positive ratio when it is not the default
        let b = if cfg.gr != 0.5 { b.set_false_positive_ratio(cfg.gr) } else { b };
        let r = if cfg.ctor == 2 {
            WTinyLFUCache::from_builder(b)
        } else {
            b.finalize()
        };
        r.map_err(|e| format!("{:?}", e))
    }
    fn lists(&self, lookup: bool) -> Vec<(usize, Result<Vec<(&K, &TVal)>, String>)> {
        let m = self.verif_main();
        vec![
            (self.window_cache_cap(), audit!(self.verif_window(), lookup)),
            (m.probationary_cap(), audit!(m.verif_probationary(), lookup)),
            (m.protected_cap(), audit!(m.verif_protected(), lookup)),
        ]
    }
    fn est(&self) -> Option<EstDigest> {
        Some(digest(self.verif_estimator()))
    }
    fn estimate(&self, k: u32) -> Option<u64> {
        Some(K::with_q1(k, |q| self.verif_estimator().estimate(q)))
    }
    fn est_after_access(&self, k: u32) -> Vec<EstDigest> {
        // "records one access" is pinned; how many reset-clock ticks accompany it is not
        let base = self.verif_estimator();
        let mut out = vec![];
        let mut a = base.clone();
        K::with_q1(k, |q| a.increment(q));
        out.push(digest(&a));
        let mut b = base.clone();
        b.try_reset();
        K::with_q1(k, |q| b.increment(q));
        out.push(digest(&b));
        let mut c = base.clone();
        K::with_q1(k, |q| c.increment(q));
        c.try_reset();
        out.push(digest(&c));
        out
    }
    fn est_cleared(&self) -> Option<EstDigest> {
        let mut a = self.verif_estimator().clone();
        a.clear();
        Some(digest(&a))
    }
    fn reseed(&mut self, seeds: [u64; 4]) {
        self.verif_estimator_mut().verif_reseed(seeds)
    }
    fn seg_lens(&self) -> Vec<u64> {
        vec![self.window_cache_len() as u64, self.main_cache_len() as u64]
    }
    fn try_clone(&self) -> Option<Self> {
        Some(self.clone())
    }
    fn try_clone_from(&mut self, src: &Self) -> bool {
        self.clone_from(src);
        true
    }
    fn extra(&mut self, op: &Op, _nv: u64) -> Res {
        match *op {
            Op::SegLens => Res::Lens(vec![
                self.window_cache_len() as u64,
                self.main_cache_len() as u64,
                self.window_cache_cap() as u64,
                self.main_cache_cap() as u64,
            ]),
            _ => Res::Unsupported,
        }
    }
}

// ---------------------------------------------------------------------------------------
// panic capture
// ---------------------------------------------------------------------------------------

thread_local! {
    static LAST_PANIC: RefCell<Option<String>> = const { RefCell::new(None) };
}

pub fn install_panic_hook() {
    std::panic::set_hook(Box::new(|info| {
        let loc = info
            .location()
            .map(|l| {
                let f = l.file();
                let f = match f.rfind("/src/") {
                    Some(i) => &f[i + 1..],
                    None => f,
                };
                format!("{}:{}", f, l.line())
            })
            .unwrap_or_default();
        let msg = if let Some(s) = info.payload().downcast_ref::<&str>() {
            s.to_string()
        } else if let Some(s) = info.payload().downcast_ref::<String>() {
            s.clone()
        } else if let Some(p) = info.payload().downcast_ref::<InjectedPanic>() {
            format!("injected panic at {}", SITE_NAMES[p.0 as usize])
        } else {
            "<non-string panic payload>".to_string()
        };
        let _ = LAST_PANIC.try_with(|l| {
            if let Ok(mut l) = l.try_borrow_mut() {
                *l = Some(format!("{} @ {}", msg, loc));
            }
        });
    }));
}

pub fn take_panic() -> String {
    LAST_PANIC
        .with(|l| l.borrow_mut().take())
        .unwrap_or_else(|| "<panic>".to_string())
}

pub fn guarded<R>(f: impl FnOnce() -> R) -> Result<R, String> {
    match catch_unwind(AssertUnwindSafe(f)) {
        Ok(r) => Ok(r),
        Err(_) => Err(take_panic()),
    }
}

// ---------------------------------------------------------------------------------------
// object-safe wrapper
// ---------------------------------------------------------------------------------------

pub trait DynSubject {
    fn kind(&self) -> Kind;
    fn key_type(&self) -> &'static str;
    /// run one operation on the real cache under catch_unwind
    fn exec(&mut self, op: &Op, nv: u64) -> Res;
    fn snapshot(&self, lookup: bool) -> Result<Snapshot, String>;
    fn probes(&mut self, universe: &[u32]) -> Result<Probes, String>;
    fn estimates(&self, universe: &[u32]) -> Option<Vec<u64>>;
    fn est_after_access(&self, k: u32) -> Vec<EstDigest>;
    fn est_cleared(&self) -> Option<EstDigest>;
    fn reseed(&mut self, seeds: [u64; 4]);
    fn clone_box(&self) -> Result<Option<Box<dyn DynSubject>>, String>;
    fn as_any(&self) -> &dyn std::any::Any;
    /// `self.clone_from(src)`; Ok(false) when the type is not Clone or `src` is another type
    fn clone_from_dyn(&mut self, src: &dyn DynSubject) -> Result<bool, String>;
    /// keys of every list as the *public* iterators report them (types that have iterators)
    fn public_keys(&mut self) -> Option<Vec<Vec<u32>>>;
    /// (key, value) pairs of every list as the public entry iterators report them
    fn public_items(&mut self) -> Option<Vec<Vec<(u32, u64)>>>;
    /// everything reachable through well-formed lists, ignoring the audit verdict of the
    /// others (used after injected panics): (key object id, value object id, key)
    fn reachable(&self) -> Vec<(u64, u64, u32)>;
}

pub struct Wrap<K: KeyLike, C: Subject<K>>(pub C, PhantomData<K>);

impl<K: KeyLike, C: Subject<K> + 'static> DynSubject for Wrap<K, C> {
    fn kind(&self) -> Kind {
        C::KIND
    }
    fn key_type(&self) -> &'static str {
        K::NAME
    }
    fn exec(&mut self, op: &Op, nv: u64) -> Res {
        let c = &mut self.0;
        #[cfg(feature = "talloc")]
        crate::talloc::in_lib(true);
        let r = catch_unwind(AssertUnwindSafe(|| match exec_common::<K, C>(c, op, nv) {
            Some(r) => r,
            None => c.extra(op, nv),
        }));
        #[cfg(feature = "talloc")]
        crate::talloc::in_lib(false);
        match r {
            Ok(r) => r,
            Err(_) => Res::Panic(take_panic()),
        }
    }
    fn snapshot(&self, lookup: bool) -> Result<Snapshot, String> {
        let names = C::KIND.list_names();
        let mut s = Snapshot::default();
        let ls = guarded(|| self.0.lists(lookup)).map_err(|e| format!("audit panicked: {}", e))?;
        for (i, (cap, r)) in ls.into_iter().enumerate() {
            match r {
                Ok(v) => s.lists.push(items::<K>(v)),
                Err(e) => return Err(format!("list '{}': {}", names[i], e)),
            }
            s.caps.push(cap);
        }
        s.p = self.0.p();
        s.est = self.0.est();
        Ok(s)
    }
    fn probes(&mut self, universe: &[u32]) -> Result<Probes, String> {
        let c = &mut self.0;
        guarded(|| {
            let mut p = Probes {
                len: c.len(),
                cap: c.cap(),
                is_empty: c.is_empty(),
                seg_lens: c.seg_lens(),
                ..Default::default()
            };
            for &k in universe {
                let c1 = K::with_q1(k, |q| c.contains(q));
                let c2 = K::with_q2(k, |q| c.contains(q));
                p.contains.push((c1, c2));
                let p1 = K::with_q1(k, |q| c.peek(q).map(|v| v.read()));
                let p2 = K::with_q2(k, |q| c.peek(q).map(|v| v.read()));
                p.peek.push((p1, p2));
            }
            {
                let nres = C::KIND.resident_lists();
                let mut resident: Vec<&K> = vec![];
                for (i, (_, r)) in c.lists(false).into_iter().enumerate() {
                    if i < nres {
                        if let Ok(v) = r {
                            resident.extend(v.into_iter().map(|(k, _)| k));
                        }
                    }
                }
                p.alias = K::alias_probe(&*c, &resident);
            }
            p
        })
    }
    fn estimates(&self, universe: &[u32]) -> Option<Vec<u64>> {
        let mut out = Vec::with_capacity(universe.len());
        for &k in universe {
            out.push(self.0.estimate(k)?);
        }
        Some(out)
    }
    fn est_after_access(&self, k: u32) -> Vec<EstDigest> {
        self.0.est_after_access(k)
    }
    fn est_cleared(&self) -> Option<EstDigest> {
        self.0.est_cleared()
    }
    fn reseed(&mut self, seeds: [u64; 4]) {
        self.0.reseed(seeds)
    }
    fn clone_box(&self) -> Result<Option<Box<dyn DynSubject>>, String> {
        #[cfg(feature = "talloc")]
        crate::talloc::in_lib(true);
        let r = guarded(|| self.0.try_clone());
        #[cfg(feature = "talloc")]
        crate::talloc::in_lib(false);
        Ok(r?.map(|c| Box::new(Wrap::<K, C>(c, PhantomData)) as Box<dyn DynSubject>))
    }
    fn as_any(&self) -> &dyn std::any::Any {
        self
    }
    fn clone_from_dyn(&mut self, src: &dyn DynSubject) -> Result<bool, String> {
        let src = match src.as_any().downcast_ref::<Wrap<K, C>>() {
            Some(s) => s,
            None => return Ok(false),
        };
        #[cfg(feature = "talloc")]
        crate::talloc::in_lib(true);
        let r = guarded(|| self.0.try_clone_from(&src.0));
        #[cfg(feature = "talloc")]
        crate::talloc::in_lib(false);
        r
    }
    fn public_keys(&mut self) -> Option<Vec<Vec<u32>>> {
        if !matches!(C::KIND, Kind::Lru | Kind::TwoQ | Kind::Arc) {
            return None;
        }
        let mut out = vec![];
        for li in 0..C::KIND.list_names().len() {
            let spec = IterSpec { list: li as u8, fam: Fam::Keys, steps: 64, pat: 0, write: false, clone_at: 255, fin: 0 };
            match self.exec(&Op::Iter(spec), 0) {
                Res::Iter(t) => out.push(t.steps.iter().filter_map(|s| s.item.and_then(|i| i.0)).collect()),
                _ => return None,
            }
        }
        Some(out)
    }
    fn public_items(&mut self) -> Option<Vec<Vec<(u32, u64)>>> {
        if !matches!(C::KIND, Kind::Lru | Kind::TwoQ | Kind::Arc) {
            return None;
        }
        let mut out = vec![];
        for li in 0..C::KIND.list_names().len() {
            let spec = IterSpec { list: li as u8, fam: Fam::Iter, steps: 64, pat: 0, write: false, clone_at: 255, fin: 0 };
            match self.exec(&Op::Iter(spec), 0) {
                Res::Iter(t) => out.push(t.steps.iter().filter_map(|s| s.item.and_then(|i| Some((i.0?, i.1?)))).collect()),
                _ => return None,
            }
        }
        Some(out)
    }
    fn reachable(&self) -> Vec<(u64, u64, u32)> {
        let mut out = vec![];
        if let Ok(ls) = guarded(|| self.0.lists(false)) {
            for (_, r) in ls {
                if let Ok(v) = r {
                    for (k, val) in v {
                        std::hint::black_box(val.read());
                        out.push((k.oid(), val.id, k.key_num()));
                    }
                }
            }
        }
        out
    }
}

#[derive(Clone, Copy, Debug, PartialEq, Eq)]
pub enum KeyType {
    Tracked,
    Str,
}
impl KeyType {
    pub fn name(self) -> &'static str {
        match self {
            KeyType::Tracked => "tkey",
            KeyType::Str => "string",
        }
    }
    pub fn parse(s: &str) -> Option<KeyType> {
        match s {
            "tkey" => Some(KeyType::Tracked),
            "string" => Some(KeyType::Str),
            _ => None,
        }
    }
}

fn mk<K: KeyLike, C: Subject<K> + 'static>(cfg: &Cfg) -> Result<Box<dyn DynSubject>, String> {
    #[cfg(feature = "talloc")]
    crate::talloc::in_lib(true);
    let r = guarded(|| C::build(cfg));
    #[cfg(feature = "talloc")]
    crate::talloc::in_lib(false);
    match r {
        Err(p) => Err(format!("PANIC: {}", p)),
        Ok(Err(e)) => Err(e),
        Ok(Ok(c)) => Ok(Box::new(Wrap::<K, C>(c, PhantomData))),
    }
}

fn mk_k<K: KeyLike>(cfg: &Cfg) -> Result<Box<dyn DynSubject>, String> {
    type D = caches::DefaultHashBuilder;
    if cfg.kind == Kind::Lru && cfg.ctor == 3 {
        return mk::<K, LruG<K, caches::DefaultEvictCallback, D>>(cfg);
    }
    if cfg.kind == Kind::Lru && cfg.no_cb {
        return mk::<K, LruG<K, caches::DefaultEvictCallback, DynBH>>(cfg);
    }
    if cfg.ctor == 1 {
        match cfg.kind {
            Kind::Lru => mk::<K, Lru<K, D>>(cfg),
            Kind::Slru => mk::<K, Slru<K, D>>(cfg),
            Kind::TwoQ => mk::<K, TwoQ<K, D>>(cfg),
            Kind::Arc => mk::<K, Arc_<K, D>>(cfg),
            Kind::Wtlfu => mk::<K, WtG<K, caches::lfu::DefaultKeyHasher<K>, D>>(cfg),
        }
    } else {
        match cfg.kind {
            Kind::Lru => mk::<K, Lru<K, DynBH>>(cfg),
            Kind::Slru => mk::<K, Slru<K, DynBH>>(cfg),
            Kind::TwoQ => mk::<K, TwoQ<K, DynBH>>(cfg),
            Kind::Arc => mk::<K, Arc_<K, DynBH>>(cfg),
            Kind::Wtlfu => mk::<K, Wt<K, DynBH>>(cfg),
        }
    }
}

/// Build the real cache for a configuration. `Err` carries the constructor's error (or a
/// panic, prefixed with "PANIC:").
pub fn make_subject(cfg: &Cfg, kt: KeyType) -> Result<Box<dyn DynSubject>, String> {
    match kt {
        KeyType::Tracked => mk_k::<TKey>(cfg),
        KeyType::Str => mk_k::<String>(cfg),
    }
}
