//! cvh — runtime-monitoring harness for caches-rs. One process = one shard of one check.
//! Prints `@@VIOLATION {json}` lines and one `@@SUMMARY {json}` line on stdout; everything
//! else the driver ignores.
#![allow(clippy::too_many_arguments, clippy::type_complexity, dead_code, unused_variables, unused_imports)]

mod engine;
mod c05;
mod c18;
mod diff_suites;
mod gen;
mod lfu_suites;
mod model;
mod ops;
mod subject;
mod suites;
#[cfg(feature = "talloc")]
mod talloc;
mod track;
mod util;

use engine::*;
use ops::*;
use subject::*;
use suites::*;
use util::*;

#[cfg(feature = "talloc")]
#[global_allocator]
static GLOBAL: talloc::TAlloc = talloc::TAlloc;

fn arg<'a>(args: &'a [String], name: &str) -> Option<&'a str> {
    args.iter()
        .position(|a| a == name)
        .and_then(|i| args.get(i + 1))
        .map(|s| s.as_str())
}
fn argn(args: &[String], name: &str, d: u64) -> u64 {
    arg(args, name).and_then(|s| s.parse().ok()).unwrap_or(d)
}
fn flag(args: &[String], name: &str) -> bool {
    args.iter().any(|a| a == name)
}

fn found_json(f: &Found) -> J {
    J::obj()
        .set("property", J::s(f.v.prop.clone()))
        .set("rule", J::s(f.v.rule.clone()))
        .set("signature", J::s(f.v.sig.clone()))
        .set("detail", J::s(f.v.detail.clone()))
        .set("step", J::u(f.v.step))
        .set("cfg", J::s(f.cfg.to_text()))
        .set("cfg_desc", J::s(f.cfg.describe()))
        .set("keys", J::s(f.kt.name()))
        .set("ops", J::s(ops_to_string(&f.ops)))
        .set("universe", J::u(f.universe.len()))
        .set(
            "seeds",
            J::s(f.seeds.iter().map(|s| s.to_string()).collect::<Vec<_>>().join(",")),
        )
        .set(
            "extra",
            J::O(f.extra.iter().map(|(k, v)| (k.clone(), J::s(v.clone()))).collect()),
        )
}

fn summary_json(ctx: &Ctx, out: &ShardOut, wall: f64) -> J {
    let c = &out.cov;
    let mut triples: Vec<J> = vec![];
    for t in c.triples.iter() {
        triples.push(J::s(t.clone()));
    }
    J::obj()
        .set("property", J::s(ctx.prop.clone()))
        .set("variant", J::s(ctx.variant.clone()))
        .set("shard", J::U(ctx.shard))
        .set("seed", J::U(ctx.seed))
        .set("histories", J::U(c.histories))
        .set("steps", J::U(c.steps))
        .set("monitored", J::U(c.monitored))
        .set("aborted_by_panic", J::U(c.aborted_by_panic))
        .set("resync_loose", J::U(c.resync_loose))
        .set("multi_outcome", J::U(c.multi_outcome))
        .set("transitions", J::U(c.transitions))
        .set("states_n", J::u(c.states.len()))
        .set("states", {
            // k-minimum-values sketch of the abstract-state hashes (exact below 4096 states)
            let mut v: Vec<u64> = c.states.iter().copied().collect();
            v.sort_unstable();
            v.truncate(4096);
            J::A(v.into_iter().map(J::U).collect())
        })
        .set("triples", J::A(triples))
        .set("ops", c.ops.to_j())
        .set("outcomes", c.outcomes.to_j())
        .set("must", c.must.to_j())
        .set("notes", out.notes.to_j())
        .set("bfs", J::A(out.bfs.clone()))
        .set("samples", J::A(c.samples.iter().map(|s| J::s(s.clone())).collect()))
        .set("timed_out", J::B(out.timed_out))
        .set("violations", J::u(out.found.len()))
        .set("wall_s", J::F(wall))
}

/// runs `f` with a watchdog thread: an operation that spins after an injected fault (possible
/// once a list holds entries its index does not know) is inconclusive, not a verdict
fn with_watchdog<R>(f: impl FnOnce() -> R) -> R {
    static DONE: std::sync::atomic::AtomicBool = std::sync::atomic::AtomicBool::new(false);
    DONE.store(false, std::sync::atomic::Ordering::Relaxed);
    let wd = std::thread::spawn(|| {
        let mut last = u64::MAX;
        let mut idle_ms = 0u64;
        while !DONE.load(std::sync::atomic::Ordering::Relaxed) {
            std::thread::sleep(std::time::Duration::from_millis(if cfg!(miri) { 20 } else { 200 }));
            let now = c18::HEARTBEAT.load(std::sync::atomic::Ordering::Relaxed);
            if now == last {
                idle_ms += 200;
                if idle_ms >= 30_000 && !cfg!(miri) {
                    println!("@@HANG {}", J::obj().set("heartbeat", J::U(now)));
                    std::process::exit(86);
                }
            } else {
                idle_ms = 0;
                last = now;
            }
        }
    });
    let r = f();
    DONE.store(true, std::sync::atomic::Ordering::Relaxed);
    let _ = wd.join();
    r
}

fn main() {
    let args: Vec<String> = std::env::args().collect();
    install_panic_hook();
    let cmd = args.get(1).map(|s| s.as_str()).unwrap_or("");
    let t0 = std::time::Instant::now();
    let variant = arg(&args, "--variant").unwrap_or("dbg-std").to_string();
    #[cfg(feature = "talloc")]
    if flag(&args, "--poison") {
        talloc::POISON.store(true, std::sync::atomic::Ordering::Relaxed);
    }
    engine::SHRINK_BUDGET.store(argn(&args, "--shrink-budget", if cfg!(miri) { 12 } else { 400 }) as usize, std::sync::atomic::Ordering::Relaxed);
    match cmd {
        "run" => {
            let ctx = Ctx {
                prop: arg(&args, "--prop").unwrap_or("C01").to_string(),
                seed: argn(&args, "--seed", 0),
                shard: argn(&args, "--shard", 0),
                nshards: argn(&args, "--nshards", 1).max(1),
                thorough: arg(&args, "--tier") == Some("thorough"),
                ops: argn(&args, "--ops", 20000),
                bfs_states: argn(&args, "--bfs-states", 300) as usize,
                hist_len: argn(&args, "--hist-len", 60) as usize,
                max_secs: argn(&args, "--max-secs", 600),
                heapy: flag(&args, "--heapy"),
                spread_directed: flag(&args, "--spread-directed"),
                inject_stride: argn(&args, "--inject-stride", 1),
                variant,
            };
            let out = match ctx.prop.as_str() {
                "C13" => {
                    let mut o = engine_suite(&ctx);
                    diff_suites::c13_diff_suite(&ctx, &mut o);
                    o
                }
                "C03" => {
                    let mut o = engine_suite(&ctx);
                    let n = argn(&args, "--chaotic", 0);
                    if n > 0 {
                        with_watchdog(|| c18::c03_chaotic(&ctx, &mut o, n));
                    }
                    o
                }
                "C01" | "C02" | "C04" | "C06" | "C07" | "C08" | "C09" | "C10" | "C12"
                | "C14" | "C15" => engine_suite(&ctx),
                "C05" => c05::c05_suite(&ctx),
                "C18" => with_watchdog(|| c18::c18_suite(&ctx)),
                "C16" => diff_suites::c16_suite(&ctx),
                "C17" => diff_suites::c17_suite(&ctx),
                "C11" => lfu_suites::c11_suite(&ctx),
                "C20" => lfu_suites::c20_suite(&ctx),
                other => {
                    eprintln!("unknown property {}", other);
                    std::process::exit(3);
                }
            };
            for f in &out.found {
                println!("@@VIOLATION {}", found_json(f));
            }
            println!("@@SUMMARY {}", summary_json(&ctx, &out, t0.elapsed().as_secs_f64()));
        }
        "replay" if arg(&args, "--case").is_some() => {
            let case = arg(&args, "--case").unwrap();
            let mut out = ShardOut::default();
            c05::ONLY_CASE.with(|o| *o.borrow_mut() = Some(case.to_string()));
            c05::grid(&mut out);
            let mut n = 0u64;
            for f in &out.found {
                if f.extra.get("case").map(|c| c == case).unwrap_or(false) {
                    n += 1;
                    println!("@@VIOLATION {}", found_json(f));
                }
            }
            println!("@@REPLAY {}", J::obj().set("violations", J::U(n)).set("grid_cases", J::U(out.cov.monitored)));
        }
        "replay" if arg(&args, "--script").is_some() => {
            let prop = arg(&args, "--prop").unwrap_or("C11").to_string();
            let script = arg(&args, "--script").unwrap();
            println!("script: {}", script);
            match lfu_suites::replay_script(&prop, script) {
                Some((rule, detail, step)) => {
                    println!("@@VIOLATION {}", J::obj().set("property", J::s(prop.clone())).set("rule", J::s(rule)).set("detail", J::s(detail)).set("step", J::u(step)));
                    println!("@@REPLAY {}", J::obj().set("violations", J::U(1)));
                }
                None => println!("@@REPLAY {}", J::obj().set("violations", J::U(0))),
            }
        }
        "replay" => {
            let prop = arg(&args, "--prop").unwrap_or("C01").to_string();
            let cfg = Cfg::parse(arg(&args, "--cfg").unwrap_or("")).expect("bad --cfg");
            let kt = KeyType::parse(arg(&args, "--keys").unwrap_or("tkey")).expect("bad --keys");
            let ops = ops_parse(arg(&args, "--ops").unwrap_or("")).expect("bad --ops");
            let n = argn(&args, "--universe", 10) as u32;
            let mut opts = RunOpts::new(props_for(&prop), (0..n).collect());
            if let Some(s) = arg(&args, "--seeds") {
                let v: Vec<u64> = s.split(',').filter_map(|x| x.parse().ok()).collect();
                if v.len() == 4 {
                    opts.seeds = [v[0], v[1], v[2], v[3]];
                }
            }
            let mut extra = std::collections::BTreeMap::new();
            for k in ["clone-at", "fork-at", "keep-clone", "swaps", "inserted", "inject-at", "nkeys", "clone", "sticky", "lie-at"] {
                if let Some(v) = arg(&args, &format!("--{}", k)) {
                    extra.insert(k.to_string(), v.to_string());
                }
            }
            if prop == "C18" || extra.contains_key("sticky") || extra.contains_key("lie-at") {
                track::set_heapy(flag(&args, "--heapy"));
                println!("config: {}  ops: {}  extra: {:?}", cfg.describe(), ops_to_string(&ops), extra);
                match c18::replay(&cfg, &ops, &extra) {
                    Some((rule, detail)) => {
                        println!("@@VIOLATION {}", J::obj().set("property", J::s("C18")).set("rule", J::s(rule)).set("detail", J::s(detail)));
                        println!("@@REPLAY {}", J::obj().set("violations", J::U(1)));
                    }
                    None => println!("@@REPLAY {}", J::obj().set("violations", J::U(0))),
                }
                return;
            }
            if prop == "C16" || prop == "C17" || (prop == "C13" && extra.contains_key("inserted")) {
                track::set_heapy(flag(&args, "--heapy"));
                println!("config: {}  keys: {}  ops: {}  extra: {:?}", cfg.describe(), kt.name(), ops_to_string(&ops), extra);
                match diff_suites::replay(&prop, &cfg, kt, &ops, opts.seeds, &extra) {
                    Some((rule, detail, step)) => {
                        println!("@@VIOLATION {}", J::obj().set("property", J::s(prop.clone())).set("rule", J::s(rule)).set("detail", J::s(detail)).set("step", J::u(step)));
                        println!("@@REPLAY {}", J::obj().set("violations", J::U(1)));
                    }
                    None => println!("@@REPLAY {}", J::obj().set("violations", J::U(0))),
                }
                return;
            }
            opts.lookup_audit = opts.props.c03;
            opts.clone_swap_at = arg(&args, "--clone-swap").and_then(|x| x.parse().ok());
            opts.record_sample = true;
            opts.stop_on_violation = false;
            track::set_heapy(flag(&args, "--heapy"));
            let mut cov = Cov::default();
            let r = run_history(&cfg, kt, &ops, &opts, &mut cov);
            println!("config: {}  keys: {}", cfg.describe(), kt.name());
            for (i, t) in r.trace.iter().enumerate() {
                println!("  [{}] {}", i, t);
            }
            if let Some(e) = &r.build_err {
                println!("constructor: {}", e);
            }
            let mut n = 0;
            for v in &r.violations {
                if v.prop == prop {
                    n += 1;
                    println!("@@VIOLATION {}", J::obj().set("property", J::s(v.prop.clone())).set("rule", J::s(v.rule.clone())).set("signature", J::s(v.sig.clone())).set("detail", J::s(v.detail.clone())).set("step", J::u(v.step)));
                }
            }
            println!("@@REPLAY {}", J::obj().set("violations", J::u(n as u64)).set("steps", J::u(r.steps_done)));
        }
        "noop" => {}
        _ => {
            eprintln!("usage: cvh run|replay ...");
            std::process::exit(3);
        }
    }
}
