//! Drop-tracked keys and values with unique object ids, the ownership registry, the
//! fault-injection tick counter, the harness BuildHasher family and the logging eviction
//! callback.
use std::borrow::Borrow;
use std::cell::{Cell, RefCell};
use std::hash::{BuildHasher, Hash, Hasher};

// ---------------------------------------------------------------------------------------
// fault injection: every call into "user code" ticks; when armed, the ARM-th tick panics.
// ---------------------------------------------------------------------------------------

#[derive(Clone, Copy, Debug, PartialEq, Eq)]
#[repr(u8)]
pub enum Site {
    KeyHash = 0,
    KeyEq = 1,
    KeyClone = 2,
    ValClone = 3,
    KeyDrop = 4,
    ValDrop = 5,
    BuildHasher = 6,
    HasherWrite = 7,
    HasherFinish = 8,
    Callback = 9,
}
pub const SITE_NAMES: [&str; 10] = [
    "key_hash",
    "key_eq",
    "key_clone",
    "val_clone",
    "key_drop",
    "val_drop",
    "build_hasher",
    "hasher_write",
    "hasher_finish",
    "callback",
];

thread_local! {
    static TICKS: Cell<u64> = const { Cell::new(0) };
    static ARM_AT: Cell<u64> = const { Cell::new(0) }; // 0 = disarmed
    static TICKING: Cell<bool> = const { Cell::new(false) };
    static FIRED: Cell<Option<Site>> = const { Cell::new(None) };
    // "lie" mode: instead of panicking, the armed Hash/Eq call answers wrongly (a key type
    // with a broken Hash/Eq is still safe code: memory safety must not depend on it)
    static LIE: Cell<bool> = const { Cell::new(false) };
    static LIE_NOW: Cell<bool> = const { Cell::new(false) };
    static LIE_STICKY: Cell<u32> = const { Cell::new(u32::MAX) };
}

pub fn set_lie(on: bool) {
    LIE.with(|l| l.set(on));
    LIE_NOW.with(|l| l.set(false));
}
/// keys with this number never compare equal to anything, themselves included (NaN-like)
pub fn set_sticky_liar(k: u32) {
    LIE_STICKY.with(|l| l.set(k));
}
fn take_lie() -> bool {
    LIE_NOW.with(|l| l.replace(false))
}

pub struct InjectedPanic(pub Site);

#[inline]
pub fn tick(site: Site) {
    if !TICKING.with(|t| t.get()) {
        return;
    }
    let n = TICKS.with(|t| {
        let n = t.get() + 1;
        t.set(n);
        n
    });
    let arm = ARM_AT.with(|a| a.get());
    if arm != 0 && n == arm && LIE.with(|l| l.get()) {
        if matches!(site, Site::KeyHash | Site::KeyEq) {
            ARM_AT.with(|a| a.set(0));
            FIRED.with(|f| f.set(Some(site)));
            LIE_NOW.with(|l| l.set(true));
        } else {
            // only Hash and Eq can lie: move on to the next call
            ARM_AT.with(|a| a.set(arm + 1));
        }
        return;
    }
    if arm != 0 && n == arm {
        // drop sites must not panic while already unwinding (that would abort the process,
        // which is the language's rule for double panics, not a property of the library)
        if matches!(site, Site::KeyDrop | Site::ValDrop) && std::thread::panicking() {
            // postpone to the next tick
            ARM_AT.with(|a| a.set(arm + 1));
            return;
        }
        ARM_AT.with(|a| a.set(0));
        FIRED.with(|f| f.set(Some(site)));
        std::panic::panic_any(InjectedPanic(site));
    }
}

pub fn ticking(on: bool) {
    TICKING.with(|t| t.set(on));
}
pub fn ticks() -> u64 {
    TICKS.with(|t| t.get())
}
pub fn reset_ticks() {
    TICKS.with(|t| t.set(0));
    ARM_AT.with(|a| a.set(0));
    FIRED.with(|f| f.set(None));
}
pub fn arm(at: u64) {
    ARM_AT.with(|a| a.set(at));
}
pub fn disarm() {
    ARM_AT.with(|a| a.set(0));
}
pub fn fired() -> Option<Site> {
    FIRED.with(|f| f.get())
}

// ---------------------------------------------------------------------------------------
// ownership registry (object ids, never addresses)
// ---------------------------------------------------------------------------------------

#[derive(Default)]
pub struct Registry {
    // per object id: 0 never, 1 live, 2 dropped
    pub state: Vec<u8>,
    pub is_key: Vec<bool>,
    pub live_keys: u64,
    pub live_vals: u64,
    pub created: u64,
    pub dropped: u64,
    pub errors: Vec<String>,
}

thread_local! {
    pub static REG: RefCell<Registry> = RefCell::new(Registry::default());
    static HEAPY: Cell<bool> = const { Cell::new(false) };
}

/// When on, every tracked object owns a small heap block, so that a double drop is also a
/// double free and a leaked object is also a leaked block (visible to sanitizers).
pub fn set_heapy(on: bool) {
    HEAPY.with(|h| h.set(on));
}

pub fn reg_reset() {
    REG.with(|r| *r.borrow_mut() = Registry::default());
}

#[cfg(feature = "talloc")]
fn untagged<R>(f: impl FnOnce() -> R) -> R {
    let was = crate::talloc::swap_in_lib(false);
    let r = f();
    crate::talloc::swap_in_lib(was);
    r
}
#[cfg(not(feature = "talloc"))]
fn untagged<R>(f: impl FnOnce() -> R) -> R {
    f()
}

fn reg_new(is_key: bool) -> u64 {
    untagged(|| reg_new_(is_key))
}

fn reg_new_(is_key: bool) -> u64 {
    REG.with(|r| {
        let mut r = r.borrow_mut();
        let id = r.state.len() as u64 + 1;
        r.state.push(1);
        r.is_key.push(is_key);
        r.created += 1;
        if is_key {
            r.live_keys += 1;
        } else {
            r.live_vals += 1;
        }
        id
    })
}

fn reg_drop(id: u64) {
    untagged(|| reg_drop_(id))
}

fn reg_drop_(id: u64) {
    // never panics: called from Drop
    let _ = REG.try_with(|r| {
        if let Ok(mut r) = r.try_borrow_mut() {
            let i = (id - 1) as usize;
            if i >= r.state.len() {
                r.errors.push(format!("drop of unknown object id {}", id));
                return;
            }
            match r.state[i] {
                1 => {
                    r.state[i] = 2;
                    r.dropped += 1;
                    if r.is_key[i] {
                        r.live_keys -= 1;
                    } else {
                        r.live_vals -= 1;
                    }
                }
                2 => {
                    let what = if r.is_key[i] { "key" } else { "value" };
                    r.errors.push(format!("double drop of {} object #{}", what, id));
                }
                _ => r.errors.push(format!("drop of never-created object id {}", id)),
            }
        }
    });
}

pub fn reg_is_live(id: u64) -> bool {
    REG.with(|r| {
        let r = r.borrow();
        let i = (id - 1) as usize;
        i < r.state.len() && r.state[i] == 1
    })
}

pub fn reg_live() -> (u64, u64) {
    REG.with(|r| {
        let r = r.borrow();
        (r.live_keys, r.live_vals)
    })
}

pub fn reg_take_errors() -> Vec<String> {
    REG.with(|r| std::mem::take(&mut r.borrow_mut().errors))
}

pub fn reg_counts() -> (u64, u64) {
    REG.with(|r| {
        let r = r.borrow();
        (r.created, r.dropped)
    })
}

// ---------------------------------------------------------------------------------------
// keys
// ---------------------------------------------------------------------------------------

/// Borrowed form of a tracked key: lookups go through `&KNum`.
#[repr(transparent)]
#[derive(Debug)]
pub struct KNum(pub u32);

impl Hash for KNum {
    fn hash<H: Hasher>(&self, state: &mut H) {
        tick(Site::KeyHash);
        if take_lie() {
            state.write_u32(self.0 ^ 0x5a5a_5a5a);
        } else {
            state.write_u32(self.0);
        }
    }
}
impl PartialEq for KNum {
    fn eq(&self, o: &Self) -> bool {
        tick(Site::KeyEq);
        if take_lie() {
            return self.0 != o.0;
        }
        if LIE_STICKY.with(|l| l.get()) == self.0 {
            return false;
        }
        self.0 == o.0
    }
}
impl Eq for KNum {}

#[derive(Debug)]
pub struct TKey {
    pub n: KNum,
    pub id: u64,
    heap: Option<Box<u32>>,
}

impl TKey {
    pub fn new(n: u32) -> Self {
        let heap = if HEAPY.with(|h| h.get()) {
            Some(Box::new(n))
        } else {
            None
        };
        TKey {
            n: KNum(n),
            id: reg_new(true),
            heap,
        }
    }
}
impl Hash for TKey {
    fn hash<H: Hasher>(&self, state: &mut H) {
        self.n.hash(state)
    }
}
impl PartialEq for TKey {
    fn eq(&self, o: &Self) -> bool {
        self.n == o.n
    }
}
impl Eq for TKey {}
impl Borrow<KNum> for TKey {
    fn borrow(&self) -> &KNum {
        &self.n
    }
}
impl Clone for TKey {
    fn clone(&self) -> Self {
        tick(Site::KeyClone);
        if let Some(h) = &self.heap {
            assert_eq!(**h, self.n.0, "tracked key heap block corrupted");
        }
        TKey::new(self.n.0)
    }
}
impl Drop for TKey {
    fn drop(&mut self) {
        reg_drop(self.id);
        tick(Site::KeyDrop);
    }
}

// ---------------------------------------------------------------------------------------
// values
// ---------------------------------------------------------------------------------------

#[derive(Debug)]
pub struct TVal {
    /// logical identity of the write that produced this value
    pub vid: u64,
    pub id: u64,
    heap: Option<Box<u64>>,
}

impl TVal {
    pub fn new(vid: u64) -> Self {
        let heap = if HEAPY.with(|h| h.get()) {
            Some(Box::new(vid))
        } else {
            None
        };
        TVal {
            vid,
            id: reg_new(false),
            heap,
        }
    }
    /// a write through a mutable reference
    pub fn write(&mut self, vid: u64) {
        self.vid = vid;
        if let Some(h) = self.heap.as_mut() {
            **h = vid;
        }
    }
    pub fn read(&self) -> u64 {
        if let Some(h) = &self.heap {
            // reading the heap block makes a dangling value visible to the sanitizers
            if **h != self.vid {
                return u64::MAX;
            }
        }
        self.vid
    }
}
impl PartialEq for TVal {
    fn eq(&self, o: &Self) -> bool {
        self.vid == o.vid
    }
}
impl Eq for TVal {}
impl Clone for TVal {
    fn clone(&self) -> Self {
        tick(Site::ValClone);
        TVal::new(self.read())
    }
}
impl Drop for TVal {
    fn drop(&mut self) {
        reg_drop(self.id);
        tick(Site::ValDrop);
    }
}

// ---------------------------------------------------------------------------------------
// BuildHasher family
// ---------------------------------------------------------------------------------------

#[derive(Clone, Copy, Debug, PartialEq, Eq)]
pub enum HKind {
    /// std RandomState (SipHash, random keys), instance A
    RandA,
    /// a second, differently seeded RandomState
    RandB,
    /// identity on the last integer written
    Ident,
    /// every key collides
    Zero,
    /// FNV-1a
    Fnv,
    /// all keys fall in one of two buckets
    Two,
}
pub const HKINDS: [HKind; 6] = [
    HKind::RandA,
    HKind::RandB,
    HKind::Ident,
    HKind::Zero,
    HKind::Fnv,
    HKind::Two,
];
impl HKind {
    pub fn name(self) -> &'static str {
        match self {
            HKind::RandA => "randA",
            HKind::RandB => "randB",
            HKind::Ident => "ident",
            HKind::Zero => "zero",
            HKind::Fnv => "fnv",
            HKind::Two => "two",
        }
    }
    pub fn parse(s: &str) -> Option<HKind> {
        HKINDS.iter().copied().find(|h| h.name() == s)
    }
}

#[derive(Clone)]
pub struct DynBH {
    pub kind: HKind,
    rs: Option<std::collections::hash_map::RandomState>,
}
impl DynBH {
    pub fn new(kind: HKind) -> Self {
        let rs = match kind {
            HKind::RandA | HKind::RandB => Some(std::collections::hash_map::RandomState::new()),
            _ => None,
        };
        DynBH { kind, rs }
    }
}
impl Default for DynBH {
    fn default() -> Self {
        DynBH::new(HKind::Fnv)
    }
}

pub enum DynHasher {
    Sip(std::collections::hash_map::DefaultHasher),
    Ident(u64),
    Zero,
    Fnv(u64),
    Two(u64),
}

impl BuildHasher for DynBH {
    type Hasher = DynHasher;
    fn build_hasher(&self) -> DynHasher {
        tick(Site::BuildHasher);
        match self.kind {
            HKind::RandA | HKind::RandB => DynHasher::Sip(self.rs.as_ref().unwrap().build_hasher()),
            HKind::Ident => DynHasher::Ident(0),
            HKind::Zero => DynHasher::Zero,
            HKind::Fnv => DynHasher::Fnv(0xcbf29ce484222325),
            HKind::Two => DynHasher::Two(0),
        }
    }
}

impl Hasher for DynHasher {
    fn finish(&self) -> u64 {
        tick(Site::HasherFinish);
        match self {
            DynHasher::Sip(h) => h.finish(),
            DynHasher::Ident(x) => *x,
            DynHasher::Zero => 0,
            DynHasher::Fnv(x) => *x,
            DynHasher::Two(x) => (*x & 1) << 63 | (*x & 1),
        }
    }
    fn write(&mut self, bytes: &[u8]) {
        tick(Site::HasherWrite);
        match self {
            DynHasher::Sip(h) => h.write(bytes),
            DynHasher::Ident(x) | DynHasher::Two(x) => {
                for b in bytes {
                    *x = x.rotate_left(8) ^ (*b as u64);
                }
            }
            DynHasher::Zero => {}
            DynHasher::Fnv(x) => {
                for b in bytes {
                    *x ^= *b as u64;
                    *x = x.wrapping_mul(0x100000001b3);
                }
            }
        }
    }
    fn write_u32(&mut self, i: u32) {
        match self {
            DynHasher::Ident(x) | DynHasher::Two(x) => {
                tick(Site::HasherWrite);
                *x = i as u64
            }
            _ => self.write(&i.to_le_bytes()),
        }
    }
    fn write_u64(&mut self, i: u64) {
        match self {
            DynHasher::Ident(x) | DynHasher::Two(x) => {
                tick(Site::HasherWrite);
                *x = i
            }
            _ => self.write(&i.to_le_bytes()),
        }
    }
}

// ---------------------------------------------------------------------------------------
// eviction callback that logs (key number, value id)
// ---------------------------------------------------------------------------------------

thread_local! {
    pub static CB_LOG: RefCell<Vec<(u32, u64)>> = const { RefCell::new(Vec::new()) };
    pub static CB_BAD: Cell<u64> = const { Cell::new(0) };
}

pub fn cb_take() -> Vec<(u32, u64)> {
    CB_LOG.with(|l| std::mem::take(&mut *l.borrow_mut()))
}

/// How a key type exposes its logical number to the logging callback.
pub trait KeyNum {
    fn key_num(&self) -> u32;
}
impl KeyNum for TKey {
    fn key_num(&self) -> u32 {
        self.n.0
    }
}
impl KeyNum for String {
    fn key_num(&self) -> u32 {
        crate::subject::str_to_num(self)
    }
}

/// The callback trait is generic over K and V with no bounds, so the typed view is recovered
/// by comparing type names (the harness knows which types it instantiated the cache with).
#[derive(Clone, Copy, Default, Debug)]
pub struct LogCb;

impl caches::OnEvictCallback for LogCb {
    fn on_evict<K, V>(&self, key: &K, val: &V) {
        tick(Site::Callback);
        let kn = std::any::type_name::<K>();
        let vn = std::any::type_name::<V>();
        if vn != std::any::type_name::<TVal>() {
            CB_BAD.with(|b| b.set(b.get() + 1));
            return;
        }
        let v: &TVal = unsafe { &*(val as *const V as *const TVal) };
        let k = if kn == std::any::type_name::<TKey>() {
            let k: &TKey = unsafe { &*(key as *const K as *const TKey) };
            k.n.0
        } else if kn == std::any::type_name::<String>() {
            let k: &String = unsafe { &*(key as *const K as *const String) };
            crate::subject::str_to_num(k)
        } else {
            CB_BAD.with(|b| b.set(b.get() + 1));
            return;
        };
        let vid = v.read();
        untagged(|| CB_LOG.with(|l| l.borrow_mut().push((k, vid))));
    }
}
