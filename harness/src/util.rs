//! Small self-contained utilities: PRNG, JSON value, hashing of abstract states.
use std::collections::BTreeMap;
use std::fmt;

#[derive(Clone, Debug)]
pub struct Rng(pub u64);

impl Rng {
    pub fn new(seed: u64) -> Self {
        Rng(seed ^ 0x9E37_79B9_7F4A_7C15)
    }
    pub fn next(&mut self) -> u64 {
        self.0 = self.0.wrapping_add(0x9E37_79B9_7F4A_7C15);
        let mut z = self.0;
        z = (z ^ (z >> 30)).wrapping_mul(0xBF58_476D_1CE4_E5B9);
        z = (z ^ (z >> 27)).wrapping_mul(0x94D0_49BB_1331_11EB);
        z ^ (z >> 31)
    }
    pub fn below(&mut self, n: u64) -> u64 {
        if n == 0 {
            0
        } else {
            self.next() % n
        }
    }
    pub fn range(&mut self, lo: u64, hi_incl: u64) -> u64 {
        lo + self.below(hi_incl - lo + 1)
    }
    pub fn chance(&mut self, num: u64, den: u64) -> bool {
        self.below(den) < num
    }
    pub fn pick<'a, T>(&mut self, xs: &'a [T]) -> &'a T {
        &xs[self.below(xs.len() as u64) as usize]
    }
    pub fn fork(&mut self) -> Rng {
        Rng(self.next())
    }
}

pub fn mix(a: u64, b: u64) -> u64 {
    let mut r = Rng(a ^ b.rotate_left(32) ^ 0xD6E8_FEB8_6659_FD93);
    r.next()
}

pub fn hash_str(s: &str) -> u64 {
    let mut h: u64 = 0xcbf29ce484222325;
    for b in s.bytes() {
        h ^= b as u64;
        h = h.wrapping_mul(0x100000001b3);
    }
    h
}

/// FNV-style accumulator for abstract-state hashes
#[derive(Clone, Copy)]
pub struct Acc(pub u64);
impl Acc {
    pub fn new() -> Self {
        Acc(0xcbf29ce484222325)
    }
    pub fn add(&mut self, x: u64) {
        for i in 0..8 {
            self.0 ^= (x >> (8 * i)) & 0xff;
            self.0 = self.0.wrapping_mul(0x100000001b3);
        }
    }
    pub fn get(&self) -> u64 {
        self.0
    }
}

#[derive(Clone, Debug)]
pub enum J {
    Null,
    B(bool),
    I(i64),
    U(u64),
    F(f64),
    S(String),
    A(Vec<J>),
    O(BTreeMap<String, J>),
}

impl J {
    pub fn obj() -> J {
        J::O(BTreeMap::new())
    }
    pub fn set(mut self, k: &str, v: J) -> J {
        if let J::O(ref mut m) = self {
            m.insert(k.to_string(), v);
        }
        self
    }
    pub fn put(&mut self, k: &str, v: J) {
        if let J::O(ref mut m) = self {
            m.insert(k.to_string(), v);
        }
    }
    pub fn s(x: impl Into<String>) -> J {
        J::S(x.into())
    }
    pub fn u(x: impl TryInto<u64>) -> J {
        J::U(x.try_into().ok().unwrap_or(u64::MAX))
    }
    pub fn strs<I: IntoIterator<Item = String>>(it: I) -> J {
        J::A(it.into_iter().map(J::S).collect())
    }
}

fn esc(s: &str, f: &mut fmt::Formatter<'_>) -> fmt::Result {
    f.write_str("\"")?;
    for c in s.chars() {
        match c {
            '"' => f.write_str("\\\"")?,
            '\\' => f.write_str("\\\\")?,
            '\n' => f.write_str("\\n")?,
            '\r' => f.write_str("\\r")?,
            '\t' => f.write_str("\\t")?,
            c if (c as u32) < 0x20 => write!(f, "\\u{:04x}", c as u32)?,
            c => write!(f, "{}", c)?,
        }
    }
    f.write_str("\"")
}

impl fmt::Display for J {
    fn fmt(&self, f: &mut fmt::Formatter<'_>) -> fmt::Result {
        match self {
            J::Null => f.write_str("null"),
            J::B(b) => write!(f, "{}", b),
            J::I(i) => write!(f, "{}", i),
            J::U(u) => write!(f, "{}", u),
            J::F(x) => {
                if x.is_finite() {
                    write!(f, "{}", x)
                } else {
                    write!(f, "\"{}\"", x)
                }
            }
            J::S(s) => esc(s, f),
            J::A(a) => {
                f.write_str("[")?;
                for (i, x) in a.iter().enumerate() {
                    if i > 0 {
                        f.write_str(",")?;
                    }
                    write!(f, "{}", x)?;
                }
                f.write_str("]")
            }
            J::O(m) => {
                f.write_str("{")?;
                for (i, (k, v)) in m.iter().enumerate() {
                    if i > 0 {
                        f.write_str(",")?;
                    }
                    esc(k, f)?;
                    f.write_str(":")?;
                    write!(f, "{}", v)?;
                }
                f.write_str("}")
            }
        }
    }
}

/// Counter map used for coverage accounting.
#[derive(Default, Clone, Debug)]
pub struct Counts(pub BTreeMap<String, u64>);
impl Counts {
    pub fn bump(&mut self, k: &str) {
        *self.0.entry(k.to_string()).or_insert(0) += 1;
    }
    pub fn add(&mut self, k: &str, n: u64) {
        *self.0.entry(k.to_string()).or_insert(0) += n;
    }
    pub fn get(&self, k: &str) -> u64 {
        self.0.get(k).copied().unwrap_or(0)
    }
    pub fn merge(&mut self, o: &Counts) {
        for (k, v) in &o.0 {
            *self.0.entry(k.clone()).or_insert(0) += v;
        }
    }
    pub fn to_j(&self) -> J {
        J::O(self.0.iter().map(|(k, v)| (k.clone(), J::U(*v))).collect())
    }
}
